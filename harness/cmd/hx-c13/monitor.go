package main

// The property monitor: C13's statement read literally on what the implementation sent.
//
//   * no message crashes or wedges the process                          (CRASH / WEDGE / HANG outputs)
//   * every reply is a well-formed protocol message carrying the operation ID of a request
//   * per operation ID the replies can be attributed to the requests such that each follows its
//     protocol (accept.go); at every quiet point all one-shot requests and queries are complete, and
//     after the epilogue of a scenario (all subscriptions cancelled) everything is complete
//   * a malformed message / unknown method is answered with an error
//   * a record read back (get, query result, notification) has the content last written through the
//     API for that key, apart from the added _meta section, which must be present and name the key
//   * "query yields zero or more ok records" of the query, "sub yields upd/new/del notifications for matching
//     changes": for where clauses the harness printed from its own condition tree (ownquery.go) every record
//     returned / announced satisfies the clause, and every record known to be in the queried database under the
//     queried prefix that satisfies it is returned (no paging clause); evaluated without database/query
//
// It never looks at the model's output.

import (
	"bytes"
	"encoding/json"
	"fmt"
	"reflect"
	"strings"

	"verifharness/hxlib"
)

type written struct {
	payloads [][]byte // JSON payload bodies successfully written through the API (latest last)
	opaque   bool     // an insert succeeded since: content is the JSON library's business
	seeded   bool     // content (also) written by the harness directly
	readable bool     // last written through the API as a JSON object in JSON format: a get must find it
}

func jsonEqualModuloMeta(a, b []byte) bool {
	var x, y any
	if json.Unmarshal(a, &x) != nil || json.Unmarshal(b, &y) != nil {
		return bytes.Equal(dropWS(a), dropWS(b))
	}
	if m, ok := x.(map[string]any); ok {
		delete(m, "_meta")
	}
	if m, ok := y.(map[string]any); ok {
		delete(m, "_meta")
	}
	return reflect.DeepEqual(x, y)
}

// canonical batch entry -> (op, type, key, data verdict, payload)
type centry struct {
	op, typ, key string
	meta         string // "k" | "b" | ""
	body         []byte // stripped JSON, nil if unknown/opaque
	opaque       bool
	bad          string
	errc         string
}

func parseCanon(e string) centry {
	if strings.HasPrefix(e, "BAD(") {
		return centry{bad: e}
	}
	p := strings.Split(e, "|")
	c := centry{}
	if len(p) < 2 {
		return centry{bad: e}
	}
	c.op, c.typ = string(unhx(p[0])), p[1]
	switch c.typ {
	case "ok", "chg", "new!", "upd!":
		if len(p) != 4 {
			return centry{bad: e}
		}
		c.key = string(unhx(p[2]))
		d := p[3]
		switch {
		case strings.HasPrefix(d, "Jd:"):
			c.meta, c.opaque = "k", true
		case strings.HasPrefix(d, "Jk:"), strings.HasPrefix(d, "Jb:"):
			c.meta = d[1:2]
			if d[3:] == "?" {
				c.opaque = true
			} else if strings.HasPrefix(d[3:], "!") {
				c.bad = "undeletable-meta:" + e
			} else {
				c.body = unhx(d[3:])
			}
		default:
			c.bad = "record-data-not-json:" + e
		}
	case "del":
		if len(p) != 3 {
			return centry{bad: e}
		}
		c.key = string(unhx(p[2]))
	case "error", "warning":
		if len(p) == 3 {
			c.errc = p[2]
		}
	}
	return c
}

func wireType(t string) string {
	switch t {
	case "chg", "new!", "upd!":
		return "upd"
	}
	return t
}

func monitor(c hxlib.Case, outs []string) (vs []hxlib.Violation) {
	if len(c.Lines) > 0 && strings.HasPrefix(c.Lines[0], "conc ") {
		if strings.HasPrefix(outs[0], "rerun-violation") || strings.HasPrefix(outs[0], "CRASH") || strings.HasPrefix(outs[0], "WEDGE") || strings.HasPrefix(outs[0], "HANG") {
			// signature: failure class + scenario family (the family names the racing parties)
			fam := "replay"
			if strings.HasPrefix(c.Kind, "conc:") {
				fam = strings.TrimPrefix(c.Kind, "conc:")
			}
			w := strings.ToLower(strings.Fields(outs[0])[0])
			if w == "crash" {
				for _, x := range strings.Fields(outs[0]) {
					if strings.HasPrefix(x, "site=") {
						fam = strings.TrimPrefix(x, "site=") + ":" + fam
					}
				}
			}
			vs = append(vs, hxlib.Violation{Sig: "C13:" + w + ":scenario:" + fam, What: "the process crashed / wedged / broke the protocol in a concurrent scenario: " + outs[0], Lines: c.Lines[:1], Output: outs[:1]})
		}
		return append(vs, judgeTrace(c.Lines[1:], c.Lines[:1])...)
	}
	vs = monitorSeq(c, outs, true)
	// the replies read AGAIN later, through the slices the send function was given (what a consumer that queues
	// replies — the websocket writer — puts on the wire): they are the same messages, and they follow the protocol
	for i, l := range c.Lines {
		if l == "late" && strings.HasPrefix(outs[i], "changed") {
			vs = append(vs, lateViolations(c, outs, i)...)
			break
		}
	}
	return vs
}

// lateViolations judges the output of a `late` line that reports changed replies.
func lateViolations(c hxlib.Case, outs []string, at int) (vs []hxlib.Violation) {
	f := strings.Fields(outs[at])
	outs2 := append([]string{}, outs[:at+1]...)
	kindOfLine := func(k int) string {
		if k < 0 || k >= len(c.Lines) {
			return "?"
		}
		lf := strings.Fields(c.Lines[k])
		if len(lf) >= 2 && lf[0] == "m" {
			return "m:" + classify(unhx(lf[1])).Kind
		}
		if len(lf) > 0 {
			return lf[0]
		}
		return "?"
	}
	for _, w := range f[1:] {
		switch {
		case strings.HasPrefix(w, "first="):
			p := strings.Split(strings.TrimPrefix(w, "first="), ":")
			if len(p) == 3 {
				var k int
				fmt.Sscan(p[0], &k)
				vs = append(vs, hxlib.Violation{Sig: "C13:reply-changed-after-send:" + kindOfLine(k),
					What:  fmt.Sprintf("a reply changed after it was handed to the send function: sent as %q, the same slice reads %q after the following replies / operations (%s; the connection's send function may queue the slice, as the websocket API does)", unhx(p[1]), unhx(p[2]), f[1]),
					Lines: c.Lines[:at+1], Output: outs[:at+1]})
			}
		case strings.HasPrefix(w, "L"):
			kv := strings.SplitN(w[1:], "=", 2)
			var k int
			if len(kv) != 2 {
				continue
			}
			if _, err := fmt.Sscan(kv[0], &k); err != nil || k < 0 || k >= len(outs2) {
				continue
			}
			batch := strings.ReplaceAll(kv[1], ",", " ")
			if lf := strings.Fields(c.Lines[k]); len(lf) > 0 && (lf[0] == "seed" || lf[0] == "seedstruct") {
				batch = strings.Fields(outs[k])[0] + " " + batch
			}
			outs2[k] = batch
		}
	}
	for _, v := range monitorSeq(hxlib.Case{Lines: c.Lines[:at+1], Kind: c.Kind}, outs2, false) {
		v.What = "replies as they read when taken from the queue later (not as they were at the moment of the send call): " + v.What
		v.Lines, v.Output = c.Lines[:at+1], outs[:at+1]
		vs = append(vs, v)
	}
	return vs
}

// monitorSeq: the statement on one connection's message sequence; useRaw: judge the arrival order recorded in rawOuts.
func monitorSeq(c hxlib.Case, outs []string, useRaw bool) (vs []hxlib.Violation) {
	add := func(i int, sig, what string) {
		lo := 0
		if i > 40 {
			lo = i - 40 // keep the replay small but with enough history; cfg line first
		}
		lines := append([]string{}, c.Lines[lo:i+1]...)
		o := append([]string{}, outs[lo:i+1]...)
		if lo > 0 {
			lines = append([]string{c.Lines[0]}, lines...)
			o = append([]string{outs[0]}, o...)
		}
		vs = append(vs, hxlib.Violation{Sig: sig, What: what, Lines: c.Lines[:i+1], Output: o})
		_ = lines
	}
	acc := newAcceptor()
	ops := map[string]bool{}
	store := map[string]*written{}
	subQ := map[string][]*ownQuery{} // per operation ID: the queries of the subscriptions opened under it (nil entry: not judged)
	for i, l := range c.Lines {
		f := strings.Fields(l)
		o := outs[i]
		if raw, ok := rawOuts[i]; useRaw && ok && sortBatchLine(f, raw) == o {
			o = raw // judge the arrival order, not the sorted form
		}
		if len(f) == 0 {
			continue
		}
		kind := f[0]
		var cls msgClass
		if kind == "m" && len(f) >= 2 {
			cls = classify(unhx(f[1]))
			kind = "m:" + cls.Kind
		}
		switch {
		case strings.HasPrefix(o, "CRASH"):
			site := "unknown"
			for _, w := range strings.Fields(o) {
				if strings.HasPrefix(w, "site=") {
					site = strings.TrimPrefix(w, "site=")
				}
			}
			add(i, "C13:crash:"+site+":"+kind, "the process died handling this message: "+o)
			return vs
		case strings.HasPrefix(o, "WEDGE"), strings.HasPrefix(o, "HANG"):
			add(i, "C13:wedge:"+kind, "the process wedged handling this message: "+o)
			return vs
		case strings.HasPrefix(o, "PANIC"), o == "CRASHED-EARLIER", o == "no-connection":
			return vs
		}
		batch := o
		switch f[0] {
		case "cfg", "conc", "t", "late":
			continue
		case "seed", "seedstruct":
			sp := strings.SplitN(o, " ", 2)
			batch = "-"
			if len(sp) == 2 {
				batch = sp[1]
			}
			key := normKey(string(unhx(f[1])))
			if strings.HasPrefix(o, "ok") {
				w := store[key]
				if w == nil {
					w = &written{}
					store[key] = w
				}
				w.seeded, w.opaque, w.readable = true, false, false
				if f[0] == "seedstruct" {
					w.payloads = [][]byte{unhx(f[2])}
				} else {
					w.payloads = [][]byte{unhx(f[3])}
				}
			}
		case "m":
			if len(f) < 2 {
				continue
			}
			acc.req(string(cls.Op), kindOf(cls))
			ops[string(cls.Op)] = true
		case "end":
		default:
			continue
		}
		ownOK, ownErr := false, false
		var oq *ownQuery
		returned := map[string]bool{}
		ownDone := false
		if f[0] == "m" && (cls.Kind == "query" || cls.Kind == "sub" || cls.Kind == "qsub") {
			oq = parseOwnQuery(cls.Arg)
			if cls.Kind != "query" {
				subQ[string(cls.Op)] = append(subQ[string(cls.Op)], oq)
			}
			if cls.Kind == "sub" {
				oq = nil // no query part
			}
		}
		if batch != "-" {
			for _, e := range strings.Fields(batch) {
				ce := parseCanon(e)
				if ce.bad != "" {
					add(i, "C13:bad-reply:"+kind, "not a well-formed protocol message: "+ce.bad)
					continue
				}
				if !ops[ce.op] {
					add(i, "C13:foreign-opid:"+kind, fmt.Sprintf("reply %q carries operation ID %q that no request used", e, ce.op))
					continue
				}
				if !acc.rep(ce.op, wireType(ce.typ)) {
					add(i, "C13:protocol:"+kind+":"+ce.typ, fmt.Sprintf("reply %q does not follow the protocol of the requests with operation ID %q", e, ce.op))
					return vs
				}
				if ce.typ == "new!" || ce.typ == "upd!" {
					add(i, "C13:notify-type:"+kind, fmt.Sprintf("notification %q: type contradicts Created/Modified in its own _meta section", e))
				}
				if ce.op == string(cls.Op) && ce.typ == "success" {
					ownOK = true
				}
				if ce.op == string(cls.Op) && ce.typ == "error" {
					ownErr = true
				}
				if ce.op == string(cls.Op) && ce.typ == "done" {
					ownDone = true
				}
				// which records: a record returned for the query satisfies it
				if oq != nil && ce.typ == "ok" && ce.op == string(cls.Op) {
					returned[ce.key] = true
					// … and is a record of the queried database under the queried key prefix (fstree's missing prefix
					// filter is C02's finding; its cases are built so that it stays invisible, the fuzz stream's are not)
					if dn, dk := dbOfKey(ce.key); (dn != oq.db || !strings.HasPrefix(dk, oq.prefix)) && oq.db != "fsfz" && oq.db != "fstr" {
						add(i, "C13:query-result-outside-scope:"+kind, fmt.Sprintf("record %q was returned for the query %q: not a key of that database under that prefix", ce.key, cls.Arg))
					}
					if m, ok := ownObject(ce.body); ok && !ce.opaque && !oq.cond.eval(m) {
						add(i, "C13:query-result-not-matching:"+kind, fmt.Sprintf("record %q with content %q was returned for the query %q, whose where clause it does not satisfy", ce.key, ce.body, cls.Arg))
					}
				}
				// a record announced under the operation ID of subscriptions satisfies the query of one of them
				if ce.typ == "chg" || ce.typ == "new!" || ce.typ == "upd!" {
					if qs := subQ[ce.op]; len(qs) > 0 {
						if m, ok := ownObject(ce.body); ok && !ce.opaque {
							judged, sat := true, false
							for _, q := range qs {
								if q == nil {
									judged = false
								} else if dn, dk := dbOfKey(ce.key); q.cond.eval(m) && dn == q.db && strings.HasPrefix(dk, q.prefix) {
									sat = true // satisfies the clause and lies in the database and under the key prefix of the subscription
								}
							}
							if judged && !sat {
								add(i, "C13:notification-not-matching:"+kind, fmt.Sprintf("record %q with content %q was announced under operation ID %q, but is a record of none of the subscriptions opened under it (database, key prefix, where clause: %q …)", ce.key, ce.body, ce.op, qs[0].text()))
							}
						}
					}
				}
				// get: "one ok-with-record" — the record asked for (a get under an operation ID that live subscriptions
				// or queries do not share: everything runs to quiescence, an ok in this batch under this ID is the get's)
				if f[0] == "m" && cls.Kind == "get" && ce.typ == "ok" && ce.op == string(cls.Op) && ce.key != normKey(cls.Arg) {
					add(i, "C13:get-other-record:m:get", fmt.Sprintf("get %q was answered with the record %q", cls.Arg, ce.key))
				}
				// read-back
				if ce.typ == "ok" || ce.typ == "chg" || ce.typ == "new!" || ce.typ == "upd!" {
					if ce.meta != "k" {
						add(i, "C13:readback-meta:"+kind, fmt.Sprintf("record %q returned without a _meta section naming its key", ce.key))
					}
					if w := store[ce.key]; w != nil && !w.opaque && !ce.opaque && len(w.payloads) > 0 {
						want := w.payloads[len(w.payloads)-1]
						if ce.typ != "ok" && f[0] == "m" && (cls.Kind == "create" || cls.Kind == "update") && normKey(cls.Arg) == ce.key && len(cls.Payload) >= 2 {
							want = cls.Payload[1:] // the notification of the write being acknowledged in this very batch
						}
						if !jsonEqualModuloMeta(want, ce.body) {
							add(i, "C13:readback-content:"+kind, fmt.Sprintf("record %q read back as %q, written as %q", ce.key, ce.body, want))
						}
					}
				}
			}
		}
		// bookkeeping of successful writes
		if f[0] == "m" {
			switch cls.Kind {
			case "create", "update":
				if ownOK && len(cls.Payload) >= 2 {
					w := store[normKey(cls.Arg)]
					if w == nil {
						w = &written{}
						store[normKey(cls.Arg)] = w
					}
					w.opaque, w.seeded = false, false
					w.payloads = append(w.payloads, cls.Payload[1:])
					w.readable = cls.Payload[0] == 'J' && isJSONObject(cls.Payload[1:])
				}
			case "insert":
				if ownOK {
					if w := store[normKey(cls.Arg)]; w != nil {
						w.opaque = true
						w.readable = false // what the JSON library made of it is not tracked
					}
				}
			case "get":
				// "a record written through the API is read back": an acknowledged write of a JSON object that
				// nothing has touched since cannot be answered with an error (the sinkhole backend discards by design)
				if w := store[normKey(cls.Arg)]; w != nil && w.readable && ownErr {
					if dn := strings.SplitN(normKey(cls.Arg), ":", 2)[0]; kindOfDb[dn] != "s" {
						add(i, "C13:readback-lost:m:get", fmt.Sprintf("the record %q was written through the API (acknowledged with success) and not touched since, but get answers with an error: %s", cls.Arg, o))
					}
				}
			case "delete":
				if ownOK {
					delete(store, normKey(cls.Arg))
				}
			case "query", "qsub":
				// every record known to be there (written through the API as a JSON object, acknowledged, not touched
				// since) that satisfies the query is among its results
				if oq != nil && !oq.paging && ownDone && !ownErr && kindOfDb[oq.db] != "" && kindOfDb[oq.db] != "s" && oq.db != "fsfz" {
					for key, w := range store {
						if !w.readable || w.opaque || len(w.payloads) == 0 || returned[key] {
							continue
						}
						dn, dk := dbOfKey(key)
						if dn != oq.db || !strings.HasPrefix(dk, oq.prefix) {
							continue
						}
						if m, ok := ownObject(w.payloads[len(w.payloads)-1]); ok && oq.cond.eval(m) {
							add(i, "C13:query-result-missing:"+kind, fmt.Sprintf("record %q (content %q, written through the API and not touched since) satisfies the query %q but was not returned", key, w.payloads[len(w.payloads)-1], cls.Arg))
							break
						}
					}
				}
			}
			// quiet point: one-shot requests and queries are complete
			if !acc.quiet() {
				add(i, "C13:incomplete:"+kind, fmt.Sprintf("after this message went quiet, a request with operation ID %q has not received the replies its protocol prescribes", cls.Op))
				return vs
			}
		}
	}
	return vs
}

// judgeTrace applies the monitor to a recorded concurrent trace (lines "t req|rep|final …").
func judgeTrace(lines []string, head []string) (vs []hxlib.Violation) {
	vs = judgeTraceCore(lines, head)
	// replies that read differently at the end of the scenario than at the moment of their send call
	late := map[int]string{}
	for _, l := range lines {
		if f := strings.Fields(l); len(f) == 4 && f[0] == "t" && f[1] == "late" {
			var n int
			if _, err := fmt.Sscan(f[2], &n); err == nil {
				late[n] = f[3]
			}
		}
	}
	if len(late) == 0 {
		return vs
	}
	var lateLines []string
	n, first := 0, true
	for _, l := range lines {
		f := strings.Fields(l)
		if len(f) == 3 && f[0] == "t" && f[1] == "rep" {
			if now, ok := late[n]; ok {
				if first {
					first = false
					vs = append(vs, hxlib.Violation{Sig: "C13:reply-changed-after-send:trace",
						What:  fmt.Sprintf("a reply changed after it was handed to the send function: sent as %q, the same slice reads %q at the end of the scenario (%d replies changed)", unhx(f[2]), unhx(now), len(late)),
						Lines: append(append([]string{}, head...), lines...)})
				}
				l = "t rep " + now
			}
			n++
		}
		if len(f) >= 2 && f[1] == "late" {
			continue
		}
		lateLines = append(lateLines, l)
	}
	for _, v := range judgeTraceCore(lateLines, head) {
		v.What = "replies as they read when taken from the queue later: " + v.What
		v.Lines = append(append([]string{}, head...), lines...)
		vs = append(vs, v)
	}
	return vs
}

func judgeTraceCore(lines []string, head []string) (vs []hxlib.Violation) {
	acc := newAcceptor()
	ops := map[string]bool{}
	writes := map[string][][]byte{}
	opaque := map[string]bool{}
	add := func(i int, sig, what string) {
		vs = append(vs, hxlib.Violation{Sig: sig, What: what, Lines: append(append([]string{}, head...), lines[:i+1]...)})
	}
	var sc concScenario
	if len(head) > 0 {
		_ = json.Unmarshal([]byte(strings.TrimPrefix(head[0], "conc ")), &sc)
	}
	acked := map[string]bool{}    // write operation IDs answered with success
	refused := map[string]bool{}  // subscription operation IDs answered with error
	notified := map[string]bool{} // subOp + "|" + key
	defer func() {
		// completeness of notifications where the scenario guarantees registration before the write
		for _, e := range sc.Expect {
			sub, wr, key := string(unhx(e.Sub)), string(unhx(e.Wr)), string(unhx(e.Key))
			if acked[wr] && !refused[sub] && !notified[sub+"|"+key] && len(vs) == 0 {
				vs = append(vs, hxlib.Violation{Sig: "C13:missing-notification:trace", What: fmt.Sprintf("the write %q of %q was acknowledged while subscription %q was registered, but no upd/new notification for that key was sent", wr, key, sub), Lines: append(append([]string{}, head...), lines...)})
				return
			}
		}
	}()
	for i, l := range lines {
		f := strings.Fields(l)
		if len(f) < 2 || f[0] != "t" {
			continue
		}
		if f[1] == "note" {
			sc.Expect = nil
		}
		if f[1] == "rep" {
			r := parseReply(unhx(f[2]))
			switch r.Type {
			case "success":
				acked[r.Op] = true
			case "error":
				refused[r.Op] = true
			case "upd", "new":
				notified[r.Op+"|"+r.Key] = true
			}
		}
		switch f[1] {
		case "req":
			c := classify(unhx(f[2]))
			acc.req(string(c.Op), kindOf(c))
			ops[string(c.Op)] = true
			switch c.Kind {
			case "create", "update":
				if len(c.Payload) >= 2 {
					writes[normKey(c.Arg)] = append(writes[normKey(c.Arg)], c.Payload[1:])
				}
			case "insert":
				opaque[normKey(c.Arg)] = true
			}
		case "rep":
			raw := unhx(f[2])
			r := parseReply(raw)
			if r.Bad != "" {
				add(i, "C13:bad-reply:trace", fmt.Sprintf("not a well-formed protocol message (%s): %q", r.Bad, raw))
				if r.Bad == "no-type" || r.Bad == "unknown-type" {
					return vs
				}
			}
			if !ops[r.Op] {
				add(i, "C13:foreign-opid:trace", fmt.Sprintf("reply %q carries an operation ID that no request used", raw))
				continue
			}
			if !acc.rep(r.Op, r.Type) {
				add(i, "C13:protocol:trace:"+r.Type, fmt.Sprintf("reply %q does not follow the protocol of the requests with operation ID %q", raw, r.Op))
				return vs
			}
			if r.Type == "ok" || r.Type == "upd" || r.Type == "new" {
				cd := canonData(r.Key, r.Data, false)
				if strings.HasPrefix(cd, "Jd:") {
					// deleted while in flight: says so itself
				} else if !strings.HasPrefix(cd, "Jk:") {
					add(i, "C13:readback-meta:trace", fmt.Sprintf("record %q returned as %q: no _meta section naming its key", r.Key, r.Data))
				} else if ws := writes[r.Key]; len(ws) > 0 && !opaque[r.Key] {
					body := unhx(cd[3:])
					match := false
					for _, w := range ws {
						if jsonEqualModuloMeta(w, body) {
							match = true
						}
					}
					if !match && !strings.HasPrefix(cd[3:], "!") {
						add(i, "C13:readback-content:trace", fmt.Sprintf("record %q read back as %q, never written so", r.Key, body))
					}
				}
			}
		case "quiet":
			if !acc.quiet() {
				add(i, "C13:incomplete:trace", "at a quiet point a one-shot request or query has not received the replies its protocol prescribes")
				return vs
			}
		case "seed":
			if len(f) == 4 {
				k := string(unhx(f[2]))
				writes[k] = append(writes[k], unhx(f[3]))
			}
		case "down":
			if !acc.down() {
				add(i, "C13:incomplete:trace-down", "at connection teardown a one-shot request had not been answered although its handler returned")
				return vs
			}
		case "final":
			if !acc.final() {
				add(i, "C13:incomplete:trace-final", "after every subscription was cancelled and all handlers returned, a request has not received the replies its protocol prescribes (e.g. a cancelled subscription without done)")
				return vs
			}
		}
	}
	return vs
}

func sortBatchLine(f []string, raw string) string {
	if len(f) > 0 && (f[0] == "seed" || f[0] == "seedstruct") {
		if sp := strings.SplitN(raw, " ", 2); len(sp) == 2 {
			return sp[0] + " " + sortBatch(sp[1])
		}
		return raw
	}
	return sortBatch(raw)
}
