package main

// Go rendering of the reply-protocol automaton and trace acceptor of lean/PB/Spec/DbApiProto.lean.
// It is the property monitor's reading of "the replies its protocol prescribes"; on recorded traces
// the Lean acceptor decides the same events and every difference is a reported disagreement.

type phase int

const (
	phGet1 phase = iota
	phWrite1
	phBad1
	phQ
	phS0
	phS
	phQS0
	phQS
	phC
	phFin
)

var phaseName = map[phase]string{phGet1: "get1", phWrite1: "write1", phBad1: "bad1", phQ: "q", phS0: "s0", phS: "s", phQS0: "qs0", phQS: "qs", phC: "c", phFin: "fin"}

func kindOf(c msgClass) string {
	switch c.Kind {
	case "malformed", "unknown":
		return "bad"
	case "create", "update", "insert", "delete":
		return "write"
	}
	return c.Kind
}

func initPhase(kind string) phase {
	switch kind {
	case "get":
		return phGet1
	case "write":
		return phWrite1
	case "bad":
		return phBad1
	case "query":
		return phQ
	case "sub":
		return phS0
	case "qsub":
		return phQS0
	default:
		return phC
	}
}

func delta(p phase, t string) (phase, bool) {
	rec := t == "ok" || t == "warning"
	note := t == "upd" || t == "new" || t == "del" || t == "warning"
	switch p {
	case phGet1:
		if t == "ok" || t == "error" {
			return phFin, true
		}
	case phWrite1:
		if t == "success" || t == "error" {
			return phFin, true
		}
	case phBad1:
		if t == "error" {
			return phFin, true
		}
	case phQ:
		if rec {
			return phQ, true
		}
		if t == "done" || t == "error" {
			return phFin, true
		}
	case phS0:
		if t == "error" || t == "done" {
			return phFin, true
		}
		if note {
			return phS, true
		}
	case phS:
		if note {
			return phS, true
		}
		if t == "done" {
			return phFin, true
		}
	case phQS0, phQS:
		if rec {
			return phQS, true
		}
		if t == "done" {
			return phS, true
		}
		if t == "error" {
			return phFin, true
		}
	case phC:
		if t == "error" {
			return phFin, true
		}
	}
	return p, false
}

type areq struct {
	op   string
	kind string
	ph   phase
}

type acceptor struct {
	configs [][]areq
}

func newAcceptor() *acceptor { return &acceptor{configs: [][]areq{{}}} }

func (a *acceptor) req(op, kind string) {
	for i, c := range a.configs {
		a.configs[i] = append(append([]areq(nil), c...), areq{op, kind, initPhase(kind)})
	}
}

func cfgKey(c []areq) string {
	b := make([]byte, len(c))
	for i, r := range c {
		b[i] = byte('a' + int(r.ph))
	}
	return string(b)
}

// rep advances every configuration in every possible way; reports whether any attribution survives.
func (a *acceptor) rep(op, t string) bool {
	var next [][]areq
	seen := map[string]bool{}
	for _, c := range a.configs {
		for i, r := range c {
			if r.op != op {
				continue
			}
			if p, ok := delta(r.ph, t); ok {
				n := append([]areq(nil), c...)
				n[i].ph = p
				if k := cfgKey(n); !seen[k] {
					seen[k] = true
					next = append(next, n)
				}
			}
		}
	}
	a.configs = next
	return len(next) > 0
}

func complete(p phase) bool { return p == phFin || p == phC }

func (a *acceptor) filter(ok func(p phase) bool) bool {
	var next [][]areq
	for _, c := range a.configs {
		good := true
		for _, r := range c {
			if !ok(r.ph) {
				good = false
				break
			}
		}
		if good {
			next = append(next, c)
		}
	}
	a.configs = next
	return len(next) > 0
}

// cancelRule: a cancel that stayed silent found a subscription under its operation ID and closed its
// feed, so (once things are quiet) some subscription of that ID has finished.
func cancelRule(c []areq) bool {
	for _, r := range c {
		if r.kind == "cancel" && r.ph == phC {
			found := false
			for _, s := range c {
				if s.op == r.op && (s.kind == "sub" || s.kind == "qsub") && s.ph == phFin {
					found = true
				}
			}
			if !found {
				return false
			}
		}
	}
	return true
}

func (a *acceptor) quiet() bool {
	if !a.filter(func(p phase) bool { return complete(p) || p == phS0 || p == phS }) {
		return false
	}
	var next [][]areq
	for _, c := range a.configs {
		if cancelRule(c) {
			next = append(next, c)
		}
	}
	a.configs = next
	return len(next) > 0
}

func (a *acceptor) final() bool { return a.quiet() }

// down: the connection went away; one-shot requests are complete (their handlers do not look at the
// teardown signal and have returned), queries and subscriptions may be anywhere.
func (a *acceptor) down() bool {
	return a.filter(func(p phase) bool { return p != phGet1 && p != phWrite1 && p != phBad1 })
}

// describe renders the surviving attributions of one operation ID (for violation messages).
func (a *acceptor) describe(op string) string {
	if len(a.configs) == 0 {
		return "no attribution"
	}
	s := ""
	for _, r := range a.configs[0] {
		if r.op == op {
			s += r.kind + ":" + phaseName[r.ph] + " "
		}
	}
	return s
}
