//go:build verif

package main

import (
	"encoding/json"
	"math/rand"
	"testing"

	"github.com/safing/portbase/database/query"
	"github.com/safing/portbase/database/record"
	"verifharness/hxlib"
)

// Development-time cross-check (not part of ./check): on the unchanged tree the harness's own reading of its own
// where clauses agrees with database/query on random records, and the printer's output is read back as printed.
func TestOwnQueryAgreesWithPortbase(t *testing.T) {
	rng := rand.New(rand.NewSource(7))
	g := &caseGen{r: &hxlib.Run{Rng: rng, Dist: map[string]int{}}, rng: rng}
	for i := 0; i < 20000; i++ {
		tree := ownTree(rng, 0)
		text := "query hmap:k where " + tree.print(true)
		if i%5 == 0 {
			text += " limit 3"
		}
		oq := parseOwnQuery(text)
		if oq == nil {
			t.Fatalf("own text not read back: %s", text)
		}
		if oq.cond.print(true) != tree.print(true) {
			t.Fatalf("read back differently: %s vs %s", oq.cond.print(true), tree.print(true))
		}
		q, err := query.ParseQuery(text)
		if err != nil {
			t.Fatalf("portbase rejects %q: %v", text, err)
		}
		for j := 0; j < 8; j++ {
			body, _ := json.Marshal(g.jsonObj(0))
			spelled := j%2 == 1
			if spelled {
				body = g.spell(g.jsonObj(0)) // the same kind of object in another spelling
				if !json.Valid(body) {
					t.Fatalf("spelling is not JSON: %q", body)
				}
			}
			wr, _ := record.NewWrapper("hmap:kx", nil, 'J', body)
			m, ok := ownObject(body)
			if !ok && spelled {
				continue // duplicate member names: not judged
			}
			if !ok {
				t.Fatalf("not an object: %s", body)
			}
			if got, want := oq.cond.eval(m), q.MatchesRecord(wr); got != want {
				t.Fatalf("%q on %s: own %v, portbase %v", text, body, got, want)
			}
		}
	}
}
