package main

import "verifharness/hxlib"

func concCase(r *hxlib.Run, emit func(hxlib.Case)) {}

func regressionCases(r *hxlib.Run, emit func(hxlib.Case)) {}
