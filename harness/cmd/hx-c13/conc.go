package main

// Concurrent scenarios: messages are handed to Handle without waiting for their handlers, schedules of
// the two-party races are forced through the verif hook points (a held handler is a goroutine blocked
// inside the hook), and every hook point is also a random yield. The worker records the global order of
// requests and replies; the case consists of that trace, decided line by line by the Go acceptor
// (monitor) and by the Lean acceptor (model).

import (
	"encoding/json"
	"fmt"
	"strings"

	"verifharness/hxlib"
)

type scen struct {
	g      *caseGen
	expect []concExpect
	steps  []concStep
	holdN  int
	db     string
	down   bool
}

func (s *scen) m(b []byte) {
	s.steps = append(s.steps, concStep{T: "m", H: hx(b), C: s.g.spare() + 1})
}
func (s *scen) sync()            { s.steps = append(s.steps, concStep{T: "sync"}) }
func (s *scen) sleep(us int)     { s.steps = append(s.steps, concStep{T: "sleep", N: us}) }
func (s *scen) release(id int)   { s.steps = append(s.steps, concStep{T: "release", ID: id}) }
func (s *scen) await(id int)     { s.steps = append(s.steps, concStep{T: "await", ID: id}) }
func (s *scen) key(i int) string { return fmt.Sprintf("%s:k%03d", s.db, i) }
func (s *scen) hold(point, op string, nth int) int {
	s.holdN++
	s.steps = append(s.steps, concStep{T: "hold", Point: point, Op: hx([]byte(op)), N: nth, ID: s.holdN})
	return s.holdN
}
func (s *scen) seed(key string, body []byte) {
	s.steps = append(s.steps, concStep{T: "seed", H: hx([]byte(key)), F: 'J', D: hx(body)})
}
func (s *scen) seedMany(n int) {
	for i := 0; i < n; i++ {
		s.seed(s.key(i), compact(s.g.jsonObj(0)))
	}
}
func (s *scen) expectNote(sub, wr string, i int) {
	s.expect = append(s.expect, concExpect{Sub: hx([]byte(sub)), Wr: hx([]byte(wr)), Key: hx([]byte(s.key(i)))})
}
func (s *scen) write(op string, i int) {
	s.m(append(bars(op, s.g.pick("create", "update"), s.key(i), ""), append([]byte{'J'}, compact(s.g.jsonObj(0))...)...))
}

func concCase(r *hxlib.Run, emit func(hxlib.Case)) {
	g := newCase(r, "conc")
	s := &scen{g: g, db: g.pick("hmap", "hmap", "hmsd", "bolt", "blsd", "bdgr", "fstr", "sink")}
	g.dbs = []string{s.db}
	rng := g.rng
	q := "query " + s.db + ":k"
	pattern := rng.Intn(13)
	name := ""
	switch pattern {
	case 0: // cancel vs running query
		name = "cancel-vs-query"
		n := 12 + rng.Intn(30)
		s.seedMany(n)
		h := s.hold("dbapi:query-next", "Q", 1+rng.Intn(n))
		s.m(bars("Q", "query", q))
		s.await(h)
		s.m(bars("Q", "cancel"))
		if rng.Intn(2) == 0 {
			s.m(bars("Q", "cancel"))
		}
		s.sleep(rng.Intn(300))
		s.release(h)
	case 1: // cancel overtakes the subscription's registration
		name = "cancel-vs-subscribe"
		h := s.hold("begin:sub", "S", 1)
		s.m(bars("S", "sub", q))
		s.await(h)
		s.m(bars("S", "cancel"))
		s.sleep(rng.Intn(200))
		s.release(h)
		s.sync()
		for i := 0; i < 1+rng.Intn(4); i++ {
			s.write(fmt.Sprint("w", i), rng.Intn(3))
		}
	case 2: // writes racing a subscription and its cancel
		name = "writes-vs-sub-cancel"
		s.m(bars("S", g.pick("sub", "qsub"), q))
		if rng.Intn(2) == 0 {
			s.sync()
		}
		n := 2 + rng.Intn(10)
		c := rng.Intn(n)
		for i := 0; i < n; i++ {
			s.write(fmt.Sprint("w", i), rng.Intn(4))
			if i == c {
				s.m(bars("S", "cancel"))
			}
			if rng.Intn(4) == 0 {
				s.m(bars(fmt.Sprint("d", i), "delete", s.key(rng.Intn(4))))
			}
		}
	case 3: // qsub: writes arrive while the query part is still running
		name = "qsub-writes-during-query"
		s.seedMany(3 + rng.Intn(25))
		h := s.hold("dbapi:query-next", "QS", 1+rng.Intn(3))
		s.m(bars("QS", "qsub", q))
		s.await(h)
		withCancel := rng.Intn(3) == 0
		for i := 0; i < 1+rng.Intn(5); i++ {
			s.write(fmt.Sprint("w", i), 100+i)
			if !withCancel {
				s.expectNote("QS", fmt.Sprint("w", i), 100+i) // the subscription was registered before the query started
			}
		}
		if withCancel {
			s.m(bars("QS", "cancel")) // cancels the query part only: the subscription is not registered in api.subs yet
		}
		s.sleep(rng.Intn(300))
		s.release(h)
	case 4: // same operation ID used by several requests at once
		name = "duplicate-opids"
		s.seedMany(rng.Intn(15))
		op := g.pick("1", "", "x")
		for i := 0; i < 2+rng.Intn(3); i++ {
			switch rng.Intn(7) {
			case 0:
				s.m(bars(op, "query", q))
			case 1:
				s.m(bars(op, "get", s.key(rng.Intn(5))))
			case 2:
				s.m(bars(op, "sub", q))
			case 3:
				s.write(op, rng.Intn(5))
			case 4:
				s.m(bars(op, "cancel"))
			case 5:
				s.m(bars(op, "qsub", q))
			default:
				s.m([]byte(op + g.pick("|nope|x", "", "|create|"+s.key(1))))
			}
		}
	case 5, 6: // free-running mix
		name = "free-mix"
		s.seedMany(rng.Intn(20))
		n := 5 + rng.Intn(25)
		var subs []string
		for i := 0; i < n; i++ {
			op := fmt.Sprint(i)
			if rng.Intn(10) == 0 {
				op = g.pick("", "1", "2")
			}
			switch x := rng.Intn(20); {
			case x < 3:
				s.m(bars(op, "get", s.key(rng.Intn(6))))
			case x < 6:
				s.m(bars(op, "query", g.pick(q, q, "query "+s.db+":", "query nodb:", "nonsense")))
			case x < 8:
				s.m(bars(op, "sub", q))
				subs = append(subs, op)
			case x < 10:
				s.m(bars(op, "qsub", q))
				subs = append(subs, op)
			case x < 12:
				if len(subs) > 0 {
					op = subs[rng.Intn(len(subs))]
				}
				s.m(bars(op, "cancel"))
			case x < 16:
				s.write(op, rng.Intn(6))
			case x < 17:
				s.m(append(bars(op, "insert", s.key(rng.Intn(6)), ""), compact(map[string]any{"n9": i})...))
			case x < 19:
				s.m(bars(op, "delete", s.key(rng.Intn(6))))
			default:
				s.m([]byte(g.pick(op, op+"|", op+"|zzz|y", "|", op+"|update|"+s.key(0))))
			}
			if rng.Intn(12) == 0 {
				s.sync()
			}
		}
	case 7: // connection teardown with a query held and subscriptions live
		name = "teardown-in-flight"
		s.down = true
		s.seedMany(12 + rng.Intn(20))
		s.m(bars("S", "sub", q))
		s.m(bars("QS", "qsub", q))
		h := s.hold("dbapi:query-next", "Q", 1+rng.Intn(5))
		s.m(bars("Q", "query", q))
		s.await(h)
		s.write("w", 1)
	case 9, 10: // writers that hold a record's lock (insert, delete, update) while a query iterates the same store
		name = "write-vs-running-query"
		n := 25 + rng.Intn(30)
		s.seedMany(n)
		h := s.hold("dbapi:query-next", "Q", 1+rng.Intn(3))
		s.m(bars("Q", "query", q))
		s.await(h)
		for i := 0; i < 2+rng.Intn(4); i++ {
			k := s.key(rng.Intn(n))
			switch rng.Intn(4) {
			case 0, 1:
				s.m(append(bars(fmt.Sprint("i", i), "insert", k, ""), compact(map[string]any{"n9": i})...))
			case 2:
				s.m(bars(fmt.Sprint("d", i), "delete", k))
			default:
				s.write(fmt.Sprint("w", i), rng.Intn(n))
			}
		}
		s.sleep(500 + rng.Intn(3000))
		s.release(h)
	case 11, 12: // a registered subscription must be told about every matching write
		name = "sub-then-writes"
		kind := g.pick("sub", "qsub")
		if kind == "qsub" {
			s.seedMany(rng.Intn(5))
		}
		s.m(bars("S", kind, q))
		s.sync()
		for i := 0; i < 1+rng.Intn(8); i++ {
			k := 50 + rng.Intn(4)
			s.write(fmt.Sprint("w", i), k)
			s.expectNote("S", fmt.Sprint("w", i), k)
			if rng.Intn(3) == 0 {
				s.sync()
			}
		}
	default: // cancel storms on a live subscription
		name = "cancel-storm"
		s.m(bars("S", "sub", q))
		s.sync()
		for i := 0; i < 2+rng.Intn(4); i++ {
			s.m(bars("S", "cancel"))
			if rng.Intn(2) == 0 {
				s.write(fmt.Sprint("w", i), i)
			}
		}
		if rng.Intn(2) == 0 {
			s.m(bars("S", "sub", q))
		}
	}
	g.kind = "conc:" + name
	sc := concScenario{Seed: rng.Int63(), YieldP: []int{0, 100, 400, 800}[rng.Intn(4)], Steps: s.steps, Down: s.down, Expect: s.expect}
	b, _ := json.Marshal(sc)
	line := "conc " + string(b)
	c := ensureChild()
	c.call("reset", callTimeout)
	res, raw := runScenario(c, line)
	if c.dead {
		crashes++
	}
	if res == nil {
		// the scenario itself crashed / wedged the worker: the case is the scenario line, its output the failure
		failedScenario[line] = raw
		emit(hxlib.Case{Lines: []string{line}, NonTrivial: true, Kind: g.kind, NoModel: true})
		return
	}
	if res.Note != "" {
		r.Count("conc:hold-not-reached")
	}
	r.Count("conc:replies-read-again-at-scenario-end")
	if len(res.Late) > 0 {
		r.Count("conc:reply-changed-after-send")
	}
	concCache[line] = res
	lines := append([]string{line}, traceLines(res)...)
	if res.Note != "" {
		// a forced schedule could not be established (e.g. the query failed before its loop): nothing is demanded of it
		lines = append(lines[:1], append([]string{"t note unforced"}, lines[1:]...)...)
	}
	nrep := 0
	for _, l := range lines {
		if strings.HasPrefix(l, "t rep") {
			nrep++
		}
	}
	r.Count(fmt.Sprintf("conc:replies<=%d", bucket(nrep)))
	emit(hxlib.Case{Lines: lines, NonTrivial: nrep > 0, Kind: g.kind})
}

var failedScenario = map[string]string{}

func bucket(n int) int {
	for _, b := range []int{0, 5, 20, 50, 100, 1000} {
		if n <= b {
			return b
		}
	}
	return 1 << 30
}

// regressionCases: minimal forms of the defects this check found (run first, forever).
func regressionCases(r *hxlib.Run, emit func(hxlib.Case)) {
	mk := func(kind string, lines ...string) {
		emit(hxlib.Case{Lines: append(append([]string{cfgLine()}, lines...), "end", "late"), NonTrivial: true, Kind: "regression:" + kind})
	}
	m := func(s string, ann ...string) string {
		return strings.TrimSpace("m " + hx([]byte(s)) + " " + strings.Join(ann, " "))
	}
	// replies are messages of their own: a request that arrives in a reader's buffer (spare capacity) and produces
	// several replies, read again after the operation (seeded change C13-r3-3: replies assembled in the request buffer)
	for _, db := range []string{"hmap", "bolt"} {
		qa := "q=" + hx([]byte(db)) + ":" + hx([]byte("k")) + ":*"
		var ls []string
		for i := 0; i < 5; i++ {
			ls = append(ls, fmt.Sprintf("seed %s 74 %s -", hx([]byte(fmt.Sprintf("%s:k%d", db, i))), hx([]byte(fmt.Sprintf(`{"n":%d}`, i)))))
		}
		ls = append(ls, m("1|query|query "+db+":k", qa, "c=512"), "late", m("2|qsub|query "+db+":k", qa, "c=4096"),
			m("3|create|"+db+`:k7|J{"n":7}`, "c=512"), m("4|update|"+db+`:k1|J{"n":11}`, "c=1"), m("5|delete|"+db+":k2", "c=512"), "late",
			m("2|cancel", "c=512"), m("6|get|"+db+":k7", "c=512"))
		mk("replies-stay-intact", ls...)
	}
	// insert into a record without accessor (non-JSON format; JSON format with empty data)
	for _, db := range []string{"hmap", "bolt", "bdgr", "fstr", "blsd"} {
		mk("insert-nil-accessor",
			m("1|create|"+db+":r|C123"), m("2|insert|"+db+":r|{\"a\":1}"), m("3|get|"+db+":r"),
			fmt.Sprintf("seed %s 74 - n", hx([]byte(db+":e"))), m("4|insert|"+db+":e|{\"a\":1}"))
	}
	// insert of a list / map into a native struct record
	sj := `{"Name":"n","Score":3,"Tags":["a"],"Attr":{"k":"v"},"Flag":true}`
	mk("insert-struct-unassignable",
		fmt.Sprintf("seedstruct %s %s", hx([]byte("hmap:s")), hx([]byte(sj))),
		m(`1|insert|hmap:s|{"Tags":["x"]}`, "i=0"), m(`2|insert|hmap:s|{"Attr":{"a":"b"}}`, "i=0"), m(`3|insert|hmap:s|{"Name":"m"}`), m("4|get|hmap:s"))
	// an insert that is refused half way must not leave the values applied before the refusal behind
	// (hashmap hands out the stored record itself)
	for _, db := range []string{"hmap", "hmsd", "bolt"} {
		mk("failed-insert-partially-applied",
			m("1|create|"+db+`:p|J{"a":1}`), m("2|insert|"+db+`:p|{"b":2,"a":"str"}`, "i=0"), m("3|get|"+db+":p"),
			m("4|insert|"+db+`:p|{"c":true}`), m("5|get|"+db+":p"))
	}
	mk("failed-insert-partially-applied",
		fmt.Sprintf("seedstruct %s %s", hx([]byte("hmap:s")), hx([]byte(sj))),
		m(`1|insert|hmap:s|{"Name":"changed","Score":"str"}`, "i=0"), m("2|get|hmap:s"))
	// a key with an empty database name names no database: the write must be refused like the read is
	mk("empty-database-name",
		m(`1|create|:hmap:x|J{"a":1}`), m("2|get|:hmap:x"), m("3|get|hmap:hmap:x"), m("4|query|query hmap:", "q="+hx([]byte("hmap"))+":-:*"),
		m(`5|update|:bolt:y|J{"a":1}`), m("6|get|:bolt:y"), m("7|get|bolt:bolt:y"), m(`8|insert|:hmap:x|{"b":1}`), m("9|delete|:hmap:x"))
	// JSON payloads that are not objects must not be returned with their content replaced
	mk("non-object-json",
		m("1|create|bolt:j|J5", "o=0"), m("2|get|bolt:j"), m("3|create|bolt:j|J[1,2]", "o=0"), m("4|get|bolt:j"),
		m("5|create|bolt:j|Jgarbage", "o=0"), m("6|get|bolt:j"), m("7|query|query bolt:", "q="+hx([]byte("bolt"))+":-:*"),
		m("8|create|bolt:j|J{\"a\":1}"), m("9|get|bolt:j"), m("10|delete|bolt:j"), m("11|get|bolt:j"))
	// the same JSON object in other spellings (leading / trailing / inner whitespace, indented, \u escapes with a
	// duplicate member name, nesting, the empty object): accepted with success ⇒ read back by get and query
	// (seeded change C13-r5-3: a first-byte test in front of the validation in MarshalRecord)
	for _, db := range []string{"hmap", "bolt"} {
		qa := "q=" + hx([]byte(db)) + ":" + hx([]byte("w")) + ":*"
		mk("json-spellings",
			m("1|create|"+db+":w1|J \n{\"a\":1}"), m("2|get|"+db+":w1"),
			m("3|create|"+db+":w2|J{\n  \"a\": 1,\n  \"s\": \"x y\"\n}\n"), m("4|get|"+db+":w2"),
			m("5|update|"+db+":w1|J\t{ }\r\n"), m("6|get|"+db+":w1"),
			m("7|create|"+db+`:w3|J{"a":"x","a":2}`), m("8|get|"+db+":w3"),
			m("9|create|"+db+":w4|J{\"o\":{\"o\":{\"o\":[{},[ ]]}}} "), m("10|get|"+db+":w4"),
			m("11|query|query "+db+":w", qa))
	}
	// everything after the method is the key / the query text, separator characters included (seeded change C13-r5-1:
	// the message split into four segments up front, get/query/sub/qsub/delete cut at the first bar of their argument)
	for _, db := range []string{"hmap", "bolt"} {
		px, py := `{"s1":"x"}`, `{"s1":"x|y"}`
		qdb := "q=" + hx([]byte(db)) + ":"
		mk("separator-in-key-and-query",
			m("1|create|"+db+":a|J"+px), m("2|create|"+db+":b|J"+py),
			m("3|get|"+db+":a|b"), m("4|get|"+db+":a|"),
			m("5|query|query "+db+`: where s1 sameas "x|y"`, qdb+"-:"+hx([]byte("J"+py))),
			m("6|query|query "+db+":a|", qdb+hx([]byte("a|"))+":*"),
			m("7|delete|"+db+":a|b"), m("8|get|"+db+":a"),
			m("9|sub|query "+db+":a| where s1 sameas x", qdb+hx([]byte("a|"))+":"+hx([]byte("J"+px))),
			m("10|update|"+db+":a|J"+px), m("9|cancel"))
	}
}
