package main

// Parent side of the worker child process: start, talk, detect crash / wedge, restart.

import (
	"bufio"
	"fmt"
	"os"
	"os/exec"
	"path/filepath"
	"regexp"
	"strings"
	"sync/atomic"
	"time"
)

type child struct {
	cmd    *exec.Cmd
	in     *bufio.Writer
	out    *bufio.Reader
	errLog string
	dir    string
	dead   bool
}

var childSeq, crashLogs int64

func scratchBase() string {
	if d := os.Getenv("HXC13_SCRATCH"); d != "" {
		return d
	}
	// databases live on the tmpfs when there is one (bbolt/badger fsyncs), else in the check's scratch directory
	if st, err := os.Stat("/dev/shm"); err == nil && st.IsDir() {
		d, err := os.MkdirTemp("/dev/shm", "verif.c13.")
		if err == nil {
			os.Setenv("HXC13_SCRATCH", d)
			return d
		}
	}
	d := os.Getenv("VERIF_SCRATCH_DIR")
	if d == "" {
		d, _ = os.MkdirTemp("/var/tmp", "verif.c13.")
	}
	os.Setenv("HXC13_SCRATCH", d)
	return d
}

func cleanupScratch() {
	if d := os.Getenv("HXC13_SCRATCH"); strings.Contains(d, "verif.c13.") {
		os.RemoveAll(d)
	}
}

func startChild() (*child, error) {
	n := atomic.AddInt64(&childSeq, 1)
	dir := filepath.Join(scratchBase(), fmt.Sprintf("w%d-%d", os.Getpid(), n))
	if err := os.MkdirAll(dir, 0o755); err != nil {
		return nil, err
	}
	self, err := os.Executable()
	if err != nil {
		return nil, err
	}
	c := &child{dir: dir, errLog: filepath.Join(dir, "stderr.log")}
	c.cmd = exec.Command(self)
	c.cmd.Env = append(os.Environ(), "HXC13_WORKER=1", "HXC13_DIR="+filepath.Join(dir, "db"), "GOMEMLIMIT=2GiB", "GOTRACEBACK=all")
	ef, err := os.Create(c.errLog)
	if err != nil {
		return nil, err
	}
	c.cmd.Stderr = ef
	ip, err := c.cmd.StdinPipe()
	if err != nil {
		return nil, err
	}
	op, err := c.cmd.StdoutPipe()
	if err != nil {
		return nil, err
	}
	if err := c.cmd.Start(); err != nil {
		return nil, err
	}
	ef.Close()
	c.in = bufio.NewWriterSize(ip, 1<<20)
	c.out = bufio.NewReaderSize(op, 1<<20)
	return c, nil
}

var anyFrame = regexp.MustCompile(`github\.com/safing/portbase/([\w/]+)\.([\w\(\)\*\.]+)\(`)

// crashSite extracts "<panic message> @ <first portbase frame>" from the child's stderr.
func (c *child) crashSite() (site, msg string) {
	b, _ := os.ReadFile(c.errLog)
	if n := atomic.AddInt64(&crashLogs, 1); n <= 5 {
		_ = os.WriteFile(fmt.Sprintf("worker-failure-%d.log", n), b, 0o644) // cwd = the run's scratch directory
	}
	s := string(b)
	if len(s) > 1<<20 {
		s = s[len(s)-(1<<20):]
	}
	site, msg = "unknown", "no panic message"
	if i := strings.Index(s, "panic: "); i >= 0 {
		msg = strings.SplitN(s[i:], "\n", 2)[0]
		s = s[i:]
	} else if i := strings.Index(s, "fatal error: "); i >= 0 {
		msg = strings.SplitN(s[i:], "\n", 2)[0]
		s = s[i:]
	} else if i := strings.Index(s, "WEDGE: "); i >= 0 {
		msg = strings.SplitN(s[i:], "\n", 2)[0]
	}
	// first portbase frame of the panicking goroutine that is not the verif tracking closure
	for _, m := range anyFrame.FindAllStringSubmatch(s, 40) {
		if strings.Contains(m[2], "verifTrack") || strings.Contains(m[2], "verifEvent") {
			continue
		}
		fn := strings.NewReplacer("(*", "", ")", "").Replace(m[2])
		if i := strings.Index(fn, ".func"); i >= 0 {
			fn = fn[:i]
		}
		site = m[1] + "." + fn
		break
	}
	return site, msg
}

// call sends one request line; a dead or silent child yields "CRASH …" / "HANG …".
func (c *child) call(line string, timeout time.Duration) string {
	if c.dead {
		return "CRASHED-EARLIER"
	}
	c.in.WriteString(line)
	c.in.WriteByte('\n')
	if err := c.in.Flush(); err != nil {
		return c.died("write: " + err.Error())
	}
	type res struct {
		s   string
		err error
	}
	ch := make(chan res, 1)
	go func() {
		s, err := c.out.ReadString('\n')
		ch <- res{s, err}
	}()
	select {
	case r := <-ch:
		if r.err != nil && r.s == "" {
			return c.died("eof")
		}
		s := strings.TrimRight(r.s, "\r\n")
		if strings.HasPrefix(s, "WEDGE") {
			c.cmd.Wait()
			c.dead = true
			site, _ := c.crashSite()
			return "WEDGE " + site + " " + strings.TrimPrefix(s, "WEDGE ")
		}
		return s
	case <-time.After(timeout):
		c.cmd.Process.Kill()
		c.cmd.Wait()
		c.dead = true
		return "HANG worker did not answer within " + timeout.String()
	}
}

func (c *child) died(why string) string {
	err := c.cmd.Wait()
	c.dead = true
	site, msg := c.crashSite()
	code := "?"
	if err != nil {
		code = err.Error()
	}
	return fmt.Sprintf("CRASH site=%s (%s) %s", site, code, msg)
}

func (c *child) stop() {
	if c == nil {
		return
	}
	if !c.dead {
		c.in.Flush()
		if w, ok := c.cmd.Stdin.(interface{ Close() error }); ok {
			_ = w
		}
		c.cmd.Process.Kill()
		c.cmd.Wait()
		c.dead = true
	}
	os.RemoveAll(c.dir)
}
