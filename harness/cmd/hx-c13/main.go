// hx-c13: harness for C13 (database API protocol): generator, executor on the real api.DatabaseAPI
// (in an isolated worker child process), property monitor.
package main

import (
	"bufio"
	"encoding/json"
	"fmt"
	"os"
	"os/signal"
	"strings"
	"syscall"
	"time"

	"verifharness/hxlib"
)

// ---- executor -------------------------------------------------------------------------------

var (
	theChild  *child
	concCache = map[string]*concResult{} // scenario line -> trace recorded by Generate
	crashes   int
	restarts  int
)

func ensureChild() *child {
	if theChild == nil || theChild.dead {
		if theChild != nil {
			theChild.stop()
			restarts++
		}
		c, err := startChild()
		if err != nil {
			fmt.Fprintln(os.Stderr, "hx-c13: cannot start worker:", err)
			os.Exit(3)
		}
		theChild = c
	}
	return theChild
}

const callTimeout = 60 * time.Second

type execT struct {
	c    *child
	acc  *acceptor
	n    int
	nrep int // replies of this connection so far
}

// measured for the evidence: `late` lines executed, reply slices read again by them, request buffers by spare capacity
var lateLines, lateRereads, lateChanged int

// rawOuts: arrival-order outputs of the case being executed, by line index (read by the monitor, which
// hxlib calls right after the case).
var rawOuts = map[int]string{}

// casesPerWorker: a worker is replaced after this many cases. Subscriptions that handleQsub leaves
// registered when its query part fails, shadow-deleted records and the storages' own garbage accumulate
// in a long-lived process and slow every write down; a fresh process and fresh database directories
// keep a run's speed flat.
const casesPerWorker = 400

var casesOnWorker int

func newExec(*hxlib.Run) hxlib.Exec {
	casesOnWorker++
	if casesOnWorker > casesPerWorker && theChild != nil && !theChild.dead {
		theChild.stop()
		theChild = nil
		casesOnWorker = 0
	}
	c := ensureChild()
	if out := c.call("reset", callTimeout); out != "ok" {
		// a worker that cannot even reset is replaced once
		c.stop()
		theChild = nil
		c = ensureChild()
		c.call("reset", callTimeout)
	}
	rawOuts = map[int]string{}
	return &execT{c: c}
}

func (e *execT) Do(line string) string {
	f := strings.Fields(line)
	idx := e.n
	e.n++
	if len(f) == 0 {
		return "bad-op"
	}
	switch f[0] {
	case "cfg", "seed", "seedstruct", "m", "end", "late":
		out := e.c.call(line, callTimeout)
		if e.c.dead {
			crashes++
		}
		// the worker reports arrival order (kept for the monitor); the model comparison is on the sorted batch
		rawOuts[idx] = out
		switch f[0] {
		case "late":
			lateLines++
			lateRereads += e.nrep
			if out != "ok" {
				lateChanged++
			}
		case "m", "end":
			if out != "-" {
				e.nrep += len(strings.Fields(out))
			}
		case "seed", "seedstruct":
			if sp := strings.Fields(out); len(sp) > 1 && sp[1] != "-" {
				e.nrep += len(sp) - 1
			}
		}
		switch {
		case strings.HasPrefix(out, "CRASH"), strings.HasPrefix(out, "WEDGE"), strings.HasPrefix(out, "HANG"), out == "no-connection", out == "bad-op", out == "cfg-mismatch":
			return out
		case f[0] == "seed" || f[0] == "seedstruct":
			if sp := strings.SplitN(out, " ", 2); len(sp) == 2 {
				return sp[0] + " " + sortBatch(sp[1])
			}
			return out
		case f[0] == "m" || f[0] == "end":
			return sortBatch(out)
		}
		return out
	case "conc":
		e.acc = newAcceptor()
		if fail, ok := failedScenario[line]; ok {
			return fail
		}
		if _, ok := concCache[line]; ok {
			delete(concCache, line)
			return "ok"
		}
		// replay: run the scenario again and judge the fresh trace
		res, raw := runScenario(e.c, line)
		if res == nil {
			return raw
		}
		if vs := judgeTrace(traceLines(res), nil); len(vs) > 0 {
			return "rerun-violation " + vs[0].Sig
		}
		return "ok"
	case "t":
		if e.acc == nil {
			e.acc = newAcceptor()
		}
		return traceStep(e.acc, f)
	}
	return "bad-op"
}

// traceStep applies one trace line to the Go acceptor.
func traceStep(a *acceptor, f []string) string {
	ok := false
	switch {
	case len(f) == 3 && f[1] == "req":
		c := classify(unhx(f[2]))
		a.req(string(c.Op), kindOf(c))
		ok = len(a.configs) > 0
	case len(f) == 3 && f[1] == "rep":
		r := parseReply(unhx(f[2]))
		if r.Bad == "no-type" || r.Bad == "unknown-type" {
			a.configs = nil
		} else {
			ok = a.rep(r.Op, r.Type)
		}
	case len(f) == 2 && f[1] == "quiet":
		ok = a.quiet()
	case len(f) == 2 && f[1] == "final":
		ok = a.final()
	case len(f) == 2 && f[1] == "down":
		ok = a.down()
	case len(f) == 4 && f[1] == "seed", len(f) == 3 && f[1] == "note":
		ok = len(a.configs) > 0
	case len(f) == 4 && f[1] == "late":
		ok = false // a reply is a value: a trace in which one reads differently later is never accepted
	default:
		return "bad-op"
	}
	if ok {
		return "ok"
	}
	return "reject"
}

func runScenario(c *child, line string) (*concResult, string) {
	out := c.call(line, 2*callTimeout)
	if !strings.HasPrefix(out, "{") {
		return nil, out
	}
	var res concResult
	if err := json.Unmarshal([]byte(out), &res); err != nil {
		return nil, "bad-trace " + err.Error()
	}
	return &res, out
}

func traceLines(res *concResult) []string {
	var ls []string
	for _, ev := range res.Trace {
		switch ev.K {
		case "req", "rep":
			ls = append(ls, "t "+ev.K+" "+ev.H)
		case "seed":
			ls = append(ls, "t seed "+ev.H+" "+ev.D)
		case "quiet":
			ls = append(ls, "t final")
		case "down":
			ls = append(ls, "t down")
		}
	}
	for _, d := range res.Late {
		ls = append(ls, fmt.Sprintf("t late %d %s", d.N, d.Now))
	}
	return ls
}

func repl() {
	c, err := startChild()
	if err != nil {
		panic(err)
	}
	defer cleanupScratch()
	defer func() { c.stop() }()
	sc := bufio.NewScanner(os.Stdin)
	sc.Buffer(make([]byte, 1<<20), 1<<20)
	for sc.Scan() {
		l := sc.Text()
		switch {
		case strings.HasPrefix(l, "M "):
			l = "m " + hx([]byte(strings.ReplaceAll(strings.TrimPrefix(l, "M "), `\n`, "\n")))
		case strings.HasPrefix(l, "S "): // S key fmt data flags
			f := strings.SplitN(l, " ", 5)
			l = fmt.Sprintf("seed %s %s %s %s", hx([]byte(f[1])), f[2], hx([]byte(f[3])), f[4])
		case strings.HasPrefix(l, "T "): // T key json
			f := strings.SplitN(l, " ", 3)
			l = fmt.Sprintf("seedstruct %s %s", hx([]byte(f[1])), hx([]byte(f[2])))
		}
		out := c.call(l, 40*time.Second)
		fmt.Printf("> %s\n< %s\n", sc.Text(), decodeBatch(out))
		if c.dead {
			c.stop()
			c, _ = startChild()
		}
	}
}

// decodeBatch makes a canonical batch human readable (debugging only).
func decodeBatch(s string) string {
	fs := strings.Fields(s)
	for i, f := range fs {
		ps := strings.Split(f, "|")
		for j, p := range ps {
			if k := strings.LastIndex(p, ":"); k >= 0 && strings.HasPrefix(p, "J") {
				if b := unhx(p[k+1:]); b != nil && p[k+1:] != "?" {
					ps[j] = p[:k+1] + string(b)
				}
			} else if b := unhx(p); b != nil && len(p) > 1 && j != 1 {
				ps[j] = string(b)
			}
		}
		fs[i] = strings.Join(ps, "|")
	}
	return strings.Join(fs, "   ")
}

func main() {
	if os.Getenv("HXC13_WORKER") == "1" {
		workerMain()
		return
	}
	defer cleanupScratch()
	if os.Getenv("HXC13_REPL") == "1" {
		repl()
		return
	}
	sig := make(chan os.Signal, 1)
	signal.Notify(sig, syscall.SIGTERM, syscall.SIGINT)
	go func() {
		<-sig
		if theChild != nil {
			theChild.cmd.Process.Kill()
		}
		cleanupScratch()
		os.Exit(130)
	}()
	code := 0
	func() {
		defer func() {
			if theChild != nil {
				theChild.stop()
			}
			cleanupScratch()
		}()
		hxlib.Main(&hxlib.Harness{
			Prop:     "C13",
			Rule:     ruleText,
			Generate: generate,
			NewExec:  newExec,
			Monitor:  monitor,
			DisSig: func(line, impl, model string) string {
				if strings.HasPrefix(line, "m ") {
					return "corr:m:" + classify(unhx(strings.Fields(line)[1])).Kind
				}
				return "corr:" + strings.Fields(line)[0]
			},
			Extra: func(r *hxlib.Run) map[string]any {
				return map[string]any{"worker_crashes": crashes, "worker_restarts": restarts,
					"late_lines": lateLines, "reply_slices_read_again_by_late_lines": lateRereads, "late_lines_reporting_a_changed_reply": lateChanged,
					"purity_tie": "the Lean model is pure (requests and replies are values; theorem sent_replies_are_final): its answer to every `late` line is the constant ok. The implementation side of `late` re-reads, through the very slices its send function was given (kept, never copied), every reply of the connection and compares it with the copy taken at the moment of the send call; requests are handed to Handle as windows into larger buffers (see input_distribution reqbuf-spare:*). Concurrent scenarios do the same at their end (`t late` trace lines, rejected by the acceptor)."}
			},
		})
	}()
	os.Exit(code)
}
