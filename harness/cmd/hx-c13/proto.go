package main

// Wire-level helpers shared by the parent harness and the worker child:
// a literal mirror of DatabaseAPI.Handle's message splitting (used only to know what to wait for and
// to generate/label inputs — the verdicts come from the Lean model and the monitor), reply parsing,
// and canonical rendering of replies.

import (
	"bytes"
	"encoding/hex"
	"sort"
	"strings"

	"github.com/tidwall/gjson"
	"github.com/tidwall/sjson"
)

type msgClass struct {
	Kind    string // malformed unknown cancel get query sub qsub create update insert delete
	Op      []byte
	Arg     string // key or query text
	Payload []byte // create/update/insert payload
}

func classify(msg []byte) msgClass {
	parts := bytes.SplitN(msg, []byte("|"), 3)
	if len(parts) == 2 && string(parts[1]) == "cancel" {
		return msgClass{Kind: "cancel", Op: parts[0]}
	}
	if len(parts) != 3 {
		return msgClass{Kind: "malformed"}
	}
	switch c := string(parts[1]); c {
	case "get", "query", "sub", "qsub", "delete":
		return msgClass{Kind: c, Op: parts[0], Arg: string(parts[2])}
	case "create", "update", "insert":
		dp := bytes.SplitN(parts[2], []byte("|"), 2)
		if len(dp) != 2 {
			return msgClass{Kind: "malformed"}
		}
		return msgClass{Kind: c, Op: parts[0], Arg: string(dp[0]), Payload: dp[1]}
	default:
		return msgClass{Kind: "unknown", Op: parts[0]}
	}
}

// spawns reports whether Handle dispatches a goroutine for this class.
func (m msgClass) spawns() bool { return m.Kind != "malformed" && m.Kind != "unknown" }

type reply struct {
	Op   string
	Type string
	Key  string // ok/upd/new/del
	Msg  string // error/warning
	Data []byte
	Raw  []byte
	Bad  string // non-empty: not a well-formed reply
}

func parseReply(b []byte) reply {
	r := reply{Raw: b}
	p := bytes.SplitN(b, []byte("|"), 3)
	if len(p) < 2 {
		r.Bad = "no-type"
		r.Op = string(b)
		return r
	}
	r.Op, r.Type = string(p[0]), string(p[1])
	rest := []byte(nil)
	has := len(p) == 3
	if has {
		rest = p[2]
	}
	switch r.Type {
	case "ok", "upd", "new":
		kd := bytes.SplitN(rest, []byte("|"), 2)
		// keys written through the API never contain '|'; a seeded key might, then the split is ambiguous
		r.Key = string(kd[0])
		if len(kd) == 2 {
			r.Data = kd[1]
		}
		if !has || r.Key == "" {
			r.Bad = "no-key"
		}
	case "del":
		r.Key = string(rest)
		if !has || r.Key == "" {
			r.Bad = "no-key"
		}
	case "error", "warning":
		r.Msg = string(rest)
	case "done", "success":
		if has {
			r.Bad = "trailing-fields"
		}
	default:
		r.Bad = "unknown-type"
	}
	return r
}

// errClass maps an error message to a small enum (DESIGN §1.3).
func errClass(msg string) string {
	switch {
	case strings.Contains(msg, "malformed message"):
		return "malformed"
	case strings.Contains(msg, "unknown method"):
		return "unknown"
	case strings.Contains(msg, "could not find subscription"):
		return "nosub"
	case strings.Contains(msg, "not registered"):
		return "nodb"
	case strings.Contains(msg, "database entry not found"):
		return "notfound"
	case strings.Contains(msg, "access to database record denied"):
		return "denied"
	case strings.Contains(msg, "format mismatch"):
		return "format"
	case strings.Contains(msg, "no accessor"), strings.Contains(msg, "not supported"):
		return "noacc"
	case strings.Contains(msg, "could not find any valid values"), strings.Contains(msg, "values must be in a map"),
		strings.Contains(msg, "keys must be strings"), strings.Contains(msg, "tried to set field"), strings.Contains(msg, "non-existent value"),
		strings.Contains(msg, "struct field does not exist"), strings.Contains(msg, "is immutable"), strings.Contains(msg, "would overflow"),
		strings.Contains(msg, "path cannot be empty"), strings.Contains(msg, "not allowed in path"), strings.Contains(msg, "cannot set array element"), strings.Contains(msg, "json must be an object or array"):
		return "insert"
	case strings.Contains(msg, "not implemented by sinkhole"):
		return "noquery"
	}
	return "other"
}

// normKey is the key as the database reports it back: "<database>:<record key>" (a key without colon
// names the database with an empty record key).
func normKey(key string) string {
	if i := strings.IndexByte(key, ':'); i >= 0 {
		return key
	}
	return key + ":"
}

func hx(b []byte) string {
	if len(b) == 0 {
		return "-"
	}
	return hex.EncodeToString(b)
}

func unhx(s string) []byte {
	if s == "-" || s == "" {
		return []byte{}
	}
	b, err := hex.DecodeString(s)
	if err != nil {
		return nil
	}
	return b
}

// canonData renders the data of an ok/upd/new reply: the JSON payload with the added _meta section
// removed (hex), prefixed by a verdict on the section itself.
//
//	J<m>:<hex>   m = k (has _meta and _meta.Key == key) | b (section missing or wrong key)
//	X:<hex>      data does not start with the JSON format byte
func canonData(key string, data []byte, tainted bool) string {
	if len(data) == 0 {
		return "none"
	}
	if data[0] != 'J' {
		return "X:" + hx(data)
	}
	js := data[1:]
	m := "b"
	if meta := gjson.GetBytes(js, "_meta"); meta.Exists() && meta.IsObject() &&
		(meta.Get("Key").String() == key || meta.Get("Key").String() == string([]rune(key))) &&
		meta.Get("Created").Exists() && meta.Get("Modified").Exists() {
		m = "k"
	}
	if gjson.GetBytes(js, "_meta.Deleted").Int() > 0 {
		// a record deleted while it was on its way out (shared in-memory record of the hashmap backend):
		// the reply says so in its own _meta section and carries no content
		return "Jd:?"
	}
	if tainted {
		return "J" + m + ":?"
	}
	stripped, err := sjson.DeleteBytes(js, "_meta")
	if err != nil {
		return "J" + m + ":!" + hx(js)
	}
	return "J" + m + ":" + hx(stripped)
}

// dropWS removes JSON whitespace bytes everywhere: sjson's set/delete round trip does not preserve
// insignificant whitespace, so the fingerprint compared with the model ignores it (the monitor
// compares the content as JSON values).
func dropWS(b []byte) []byte {
	o := make([]byte, 0, len(b))
	for _, c := range b {
		if c != ' ' && c != '\t' && c != '\n' && c != '\r' {
			o = append(o, c)
		}
	}
	return o
}

// metaNew reports Created == Modified of the _meta section of a notification payload.
func metaNew(data []byte) (isNew, ok bool) {
	if len(data) < 2 || data[0] != 'J' {
		return false, false
	}
	c, m := gjson.GetBytes(data[1:], "_meta.Created"), gjson.GetBytes(data[1:], "_meta.Modified")
	if !c.Exists() || !m.Exists() {
		return false, false
	}
	return c.Int() == m.Int(), true
}

// canonReply renders one reply for the sequential correspondence.
func canonReply(r reply, tainted func(key string) bool) string {
	if r.Bad != "" {
		return "BAD(" + r.Bad + "):" + hx(r.Raw)
	}
	op := hx([]byte(r.Op))
	switch r.Type {
	case "ok":
		return op + "|ok|" + hx([]byte(r.Key)) + "|" + canonData(r.Key, r.Data, tainted(r.Key))
	case "upd", "new":
		t := r.Type + "!"
		if isNew, ok := metaNew(r.Data); ok && isNew == (r.Type == "new") {
			t = "chg"
		}
		return op + "|" + t + "|" + hx([]byte(r.Key)) + "|" + canonData(r.Key, r.Data, tainted(r.Key))
	case "del":
		return op + "|del|" + hx([]byte(r.Key))
	case "error", "warning":
		return op + "|" + r.Type + "|" + errClass(r.Msg)
	default:
		return op + "|" + r.Type
	}
}

// rawBatch renders the replies that one message caused, in arrival order.
func rawBatch(rs []reply, tainted func(key string) bool) string {
	if len(rs) == 0 {
		return "-"
	}
	out := make([]string, len(rs))
	for i, r := range rs {
		out[i] = canonReply(r, tainted)
	}
	return strings.Join(out, " ")
}

var typeRank = map[string]int{"ok": 0, "warning": 1, "done": 2, "error": 3, "success": 4, "chg": 5, "new!": 5, "upd!": 5, "del": 6}

// sortBatch is the canonical order used for the comparison with the model: which goroutine's reply
// reaches the send function first is scheduling, so a batch is compared as a multiset — sorted by
// operation ID, reply type, key, text. (The monitor judges the arrival order.)
func sortBatch(raw string) string {
	if raw == "-" || raw == "" {
		return raw
	}
	type item struct {
		op, key, s string
		rank       int
	}
	toks := strings.Fields(raw)
	items := make([]item, len(toks))
	for i, t := range toks {
		p := strings.Split(t, "|")
		if n := len(p); n == 4 && len(p[3]) > 3 && (strings.HasPrefix(p[3], "Jk:") || strings.HasPrefix(p[3], "Jb:")) && p[3][3] != '?' && p[3][3] != '!' {
			p[3] = p[3][:3] + hx(dropWS(unhx(p[3][3:]))) // whitespace-insensitive fingerprint, see dropWS
			t = strings.Join(p, "|")
		}
		it := item{s: t, rank: 9}
		if len(p) >= 2 && !strings.HasPrefix(t, "BAD(") {
			it.op = string(unhx(p[0]))
			if r, ok := typeRank[p[1]]; ok {
				it.rank = r
			}
			if len(p) >= 3 && (it.rank == 0 || it.rank >= 5) {
				it.key = string(unhx(p[2]))
			}
		}
		items[i] = it
	}
	sort.SliceStable(items, func(i, j int) bool {
		a, b := items[i], items[j]
		if a.op != b.op {
			return a.op < b.op
		}
		if a.rank != b.rank {
			return a.rank < b.rank
		}
		if a.key != b.key {
			return a.key < b.key
		}
		return a.s < b.s
	})
	out := make([]string, len(items))
	for i, it := range items {
		out[i] = it.s
	}
	return strings.Join(out, " ")
}
