package main

// The worker child: runs the REAL api.DatabaseAPI against real databases of every backend, in its own
// process so that a panic on one of the handler goroutines (which nothing recovers) or a wedge is
// observed by the parent as a dead / unresponsive child instead of taking the harness down.
//
// Line protocol on stdin/stdout (one answer line per request line):
//   cfg <name>=<kind>,...        check the database registry (kinds: p = plain store, s = sinkhole)
//   reset                        tear the previous connection down, wipe touched keys, new DatabaseAPI
//   seed <keyhex> <fmt> <datahex> <flags>   privileged write (flags: - or letters s c x)
//   seedstruct <keyhex> <jsonhex>           privileged write of a native Go struct record
//   m <msghex> [annotations]     DatabaseAPI.Handle(msg), wait for quiescence, canonical reply batch
//                                (annotation c=<n>: the message is a window into a buffer with n bytes of spare capacity)
//   late                         read every reply of this connection AGAIN, through the very slices the send function was
//                                given, and compare with the copies taken at send time: "ok" or "changed …"
//   end                          connection teardown; late replies
//   conc <json>                  concurrent scenario; answers with the JSON trace

import (
	"bufio"
	"bytes"
	"context"
	"encoding/json"
	"fmt"
	"math/rand"
	"os"
	"runtime"
	"runtime/pprof"
	"sort"
	"strconv"
	"strings"
	"sync"
	"time"

	"github.com/safing/portbase/api"
	"github.com/safing/portbase/database"
	"github.com/safing/portbase/database/query"
	"github.com/safing/portbase/database/record"
	_ "github.com/safing/portbase/database/storage/badger"
	_ "github.com/safing/portbase/database/storage/bbolt"
	_ "github.com/safing/portbase/database/storage/fstree"
	_ "github.com/safing/portbase/database/storage/hashmap"
	_ "github.com/safing/portbase/database/storage/sinkhole"
)

// registry of the worker: name -> (storage type, shadow delete, model kind)
var dbTable = []struct {
	Name, Storage string
	Shadow        bool
	Kind          string
}{
	{"hmap", "hashmap", false, "p"},
	{"hmsd", "hashmap", true, "p"},
	{"bolt", "bbolt", false, "p"},
	{"blsd", "bbolt", true, "p"},
	{"bdgr", "badger", false, "p"},
	{"fstr", "fstree", false, "p"},
	{"fsfz", "fstree", false, "p"}, // fstree for the implementation-only fuzz stream: keys with '/' leave directories behind, which changes what a later prefix query walks
	{"sink", "sinkhole", false, "s"},
}

func cfgLine() string {
	var s []string
	for _, d := range dbTable {
		s = append(s, d.Name+"="+d.Kind)
	}
	return "cfg " + strings.Join(s, ",")
}

// StructRec is a native (non-wrapper) record as internal portbase code stores them.
type StructRec struct {
	record.Base
	sync.Mutex

	Name  string
	Score int
	Tags  []string
	Attr  map[string]string
	Flag  bool
}

type subState struct {
	op                string
	next              int
	cancelled, exited bool
}

type hold struct {
	point, op string
	nth       int // block at the nth occurrence (1-based)
	seen      int
	reached   chan struct{}
	release   chan struct{}
	abandoned chan struct{} // a handler of this operation ID returned: the point may never be reached
	done      bool
	gone      bool
}

type traceEv struct {
	K string `json:"k"`           // req rep seed quiet down
	H string `json:"h"`           // hex (message, reply, seeded key)
	D string `json:"d,omitempty"` // seed: data hex
}

type worker struct {
	mu        sync.Mutex
	cond      *sync.Cond
	api       *api.DatabaseAPI
	priv      *database.Interface
	replies   [][]byte // copies taken inside the send function
	held      [][]byte // the slices as they were handed to the send function — never copied, read again later
	replyLine []int    // worker line during which the reply arrived
	curLine   int
	begins    int
	ends      int
	expected  int
	subs      map[any]*subState
	fed       map[any]int
	tainted   map[string]bool
	touched   map[string]bool
	shut      bool
	holds     []*hold
	trace     []traceEv
	tracing   bool
	yieldP    int // per mille probability of a scheduling perturbation at an event
	yrng      *rand.Rand
	yieldMu   sync.Mutex
	inHandle  bool
	nreset    int
	panicking bool
}

func (w *worker) sink(point string, args ...any) {
	var blockOn *hold
	w.mu.Lock()
	switch point {
	case "dbapi:begin":
		w.begins++
	case "dbapi:end":
		w.ends++
		for _, h := range w.holds {
			if !h.done && !h.gone && h.op == args[1].(string) {
				h.gone = true
				close(h.abandoned)
			}
		}
	case "dbapi:panic":
		w.panicking = true // never quiescent again: the process is about to die, the parent must see that
		fmt.Fprintf(os.Stderr, "HANDLER-PANIC in %v: %v\n", args[0], args[2])
	case "dbapi:sub-ready":
		w.subs[args[1]] = &subState{op: args[0].(string)}
	case "dbapi:sub-next":
		if s := w.subs[args[1]]; s != nil {
			s.next++
		}
	case "dbapi:sub-cancelled":
		if s := w.subs[args[1]]; s != nil {
			s.cancelled = true
		}
	case "dbapi:sub-exit":
		if s := w.subs[args[1]]; s != nil {
			s.exited = true
		}
	case "db:sub-fed":
		w.fed[args[0]]++
	}
	if point != "db:sub-fed" && point != "dbapi:sub-cancelled" && point != "dbapi:end" {
		op := ""
		switch point {
		case "dbapi:begin":
			op = args[1].(string)
			point = "begin:" + args[0].(string)
		default:
			if len(args) > 0 {
				op, _ = args[0].(string)
			}
		}
		for _, h := range w.holds {
			if !h.done && h.point == point && h.op == op {
				h.seen++
				if h.seen == h.nth {
					h.done = true
					blockOn = h
					break
				}
			}
		}
	}
	w.cond.Broadcast()
	yp := w.yieldP
	w.mu.Unlock()
	if blockOn != nil {
		close(blockOn.reached)
		select {
		case <-blockOn.release:
		case <-time.After(30 * time.Second):
		}
		return
	}
	if yp > 0 && point != "db:sub-fed" && point != "dbapi:sub-cancelled" {
		w.yieldMu.Lock()
		x := w.yrng.Intn(1000)
		d := w.yrng.Intn(200)
		w.yieldMu.Unlock()
		if x < yp {
			if d < 100 {
				runtime.Gosched()
			} else {
				time.Sleep(time.Duration(d) * time.Microsecond)
			}
		}
	}
}

// send is the connection's send function. Like DatabaseWebsocketAPI's (which only queues the slice for its writer
// goroutine) it keeps the slice it was given; the copy is what the reply was at that moment.
func (w *worker) send(data []byte) {
	cp := append([]byte(nil), data...)
	w.mu.Lock()
	w.replies = append(w.replies, cp)
	w.held = append(w.held, data)
	w.replyLine = append(w.replyLine, w.curLine)
	if w.tracing {
		w.trace = append(w.trace, traceEv{K: "rep", H: hx(cp)})
	}
	w.cond.Broadcast()
	w.mu.Unlock()
}

// quiescent (mu held): every dispatched handler has begun, and every handler that has not ended sits in
// a subscription loop that is not cancelled and has consumed everything that was fed to it.
func (w *worker) quiescent() bool {
	if w.begins != w.expected || w.panicking {
		return false
	}
	live := w.begins - w.ends
	parked := 0
	for p, s := range w.subs {
		if !s.exited && !s.cancelled && !w.shut && s.next == w.fed[p]+1 {
			parked++
		}
	}
	return live == parked
}

func (w *worker) waitFor(pred func() bool, d time.Duration) bool {
	deadline := time.Now().Add(d)
	t := time.AfterFunc(d+10*time.Millisecond, func() { w.mu.Lock(); w.cond.Broadcast(); w.mu.Unlock() })
	defer t.Stop()
	w.mu.Lock()
	defer w.mu.Unlock()
	for !pred() {
		if time.Now().After(deadline) {
			return false
		}
		w.cond.Wait()
	}
	return true
}

const wedgeTimeout = 45 * time.Second

func (w *worker) wedge(what string) string {
	fmt.Fprintf(os.Stderr, "WEDGE: %s (begins=%d ends=%d expected=%d)\n", what, w.begins, w.ends, w.expected)
	_ = pprof.Lookup("goroutine").WriteTo(os.Stderr, 1)
	fmt.Println("WEDGE " + what)
	os.Stdout.Sync()
	os.Exit(98)
	return ""
}

func (w *worker) teardown() {
	if w.api == nil {
		return
	}
	w.mu.Lock()
	w.shut = true
	for _, h := range w.holds {
		if !h.done {
			h.done = true
		} else {
			select {
			case <-h.release:
			default:
				close(h.release)
			}
		}
	}
	w.mu.Unlock()
	w.api.VerifShutdown()
	if !w.waitFor(func() bool { return w.begins == w.expected && w.begins == w.ends }, wedgeTimeout) {
		w.wedge("handlers still running after connection teardown")
	}
}

func (w *worker) clean(key string) {
	dbName, _ := record.ParseKey(key)
	for _, d := range dbTable {
		if d.Name == dbName && d.Kind == "p" {
			// overwrite whatever is there (secret, expired, shadow-deleted …) with a plain record, then delete;
			// the delete is attempted even if the overwrite failed (fstree: a key near the file-name limit is
			// writable or not depending on the length of the random temp-file suffix)
			r, _ := record.NewWrapper(key, nil, 'J', []byte("{}"))
			_ = w.priv.Put(r)
			if err := w.priv.Delete(key); err != nil && errClass(err.Error()) != "notfound" {
				r2, _ := record.NewWrapper(key, nil, 'J', []byte("{}"))
				_ = w.priv.Put(r2)
				_ = w.priv.Delete(key)
			}
		}
	}
}

func (w *worker) reset() string {
	w.teardown()
	for k := range w.touched {
		w.clean(k)
	}
	w.nreset++
	if w.nreset%200 == 0 {
		_ = database.MaintainRecordStates(context.Background())
	}
	a := api.CreateDatabaseAPI(w.send)
	w.mu.Lock()
	w.api = &a
	w.replies, w.held, w.replyLine = nil, nil, nil
	w.curLine = -1
	w.begins, w.ends, w.expected = 0, 0, 0
	w.subs = map[any]*subState{}
	w.fed = map[any]int{}
	w.tainted = map[string]bool{}
	w.touched = map[string]bool{}
	w.shut = false
	w.holds = nil
	w.trace = nil
	w.tracing = false
	w.yieldP = 0
	w.mu.Unlock()
	return "ok"
}

func (w *worker) seed(f []string) string {
	if len(f) != 5 {
		return "bad-op"
	}
	key := string(unhx(f[1]))
	fm, err := strconv.Atoi(f[2])
	if err != nil {
		return "bad-op"
	}
	r, _ := record.NewWrapper(key, nil, uint8(fm), unhx(f[3]))
	r.CreateMeta()
	for _, c := range f[4] {
		switch c {
		case 's':
			r.Meta().MakeSecret()
		case 'c':
			r.Meta().MakeCrownJewel()
		case 'x':
			r.Meta().SetAbsoluteExpiry(1000)
		case '-', 'n':
		default:
			return "bad-op"
		}
	}
	return w.privPut(key, r)
}

func (w *worker) privPut(key string, r record.Record) string {
	w.touched[key] = true
	delete(w.tainted, normKey(key))
	n0 := w.nreplies()
	if w.tracing {
		w.mu.Lock()
		d := ""
		if wr, ok := r.(*record.Wrapper); ok {
			d = hx(wr.Data)
		}
		w.trace = append(w.trace, traceEv{K: "seed", H: hx([]byte(key)), D: d})
		w.mu.Unlock()
	}
	err := w.priv.Put(r)
	res := "ok"
	if err != nil {
		res = "err:" + errClass(err.Error())
	}
	if w.tracing {
		return res
	}
	if !w.waitFor(w.quiescent, wedgeTimeout) {
		return w.wedge("no quiescence after seed")
	}
	return res + " " + w.batch(n0)
}

func (w *worker) seedStruct(f []string) string {
	if len(f) != 3 {
		return "bad-op"
	}
	key := string(unhx(f[1]))
	sr := &StructRec{}
	if err := json.Unmarshal(unhx(f[2]), sr); err != nil {
		return "bad-op"
	}
	sr.SetKey(key)
	sr.CreateMeta()
	return w.privPut(key, sr)
}

func (w *worker) nreplies() int {
	w.mu.Lock()
	defer w.mu.Unlock()
	return len(w.replies)
}

func (w *worker) batch(n0 int) string {
	w.mu.Lock()
	raw := append([][]byte(nil), w.replies[n0:]...)
	w.mu.Unlock()
	rs := make([]reply, len(raw))
	for i, b := range raw {
		rs[i] = parseReply(b)
	}
	return rawBatch(rs, func(k string) bool { return w.tainted[k] })
}

// spareFill: plausible bytes for the spare capacity behind a message: anything read beyond a sub-slice of the
// message would show up as a request
const spareFill = "|cancel|query hmap:|J{\"x\":1}|9|get|"

const defaultSpare = 32

// handleMsg hands msg to Handle as a window into a larger buffer with `spare` bytes of capacity behind it (a
// websocket reader's buffer: gorilla's ReadMessage is io.ReadAll, capacity ≥ 512). The buffer belongs to Handle
// from then on, as it does on the real transport: nothing else ever touches it.
func (w *worker) handleMsg(msg []byte, spare int) {
	c := classify(msg)
	w.mu.Lock()
	if c.spawns() {
		w.expected++
	}
	if w.tracing {
		w.trace = append(w.trace, traceEv{K: "req", H: hx(msg)})
	}
	w.mu.Unlock()
	switch c.Kind {
	case "create", "update", "insert":
		w.touched[c.Arg] = true
	}
	buf := make([]byte, len(msg), len(msg)+spare)
	copy(buf, msg)
	for tail := buf[len(msg):cap(buf)]; len(tail) > 0; {
		tail = tail[copy(tail, spareFill):]
	}
	w.api.Handle(buf)
}

// spareOf reads the c=<n> annotation of an m line.
func spareOf(ann []string) int {
	for _, a := range ann {
		if strings.HasPrefix(a, "c=") {
			if n, err := strconv.Atoi(a[2:]); err == nil && n >= 0 && n <= 1<<20 {
				return n
			}
		}
	}
	return defaultSpare
}

// late reads every reply of the connection again through the slice the send function was given and compares it
// with the copy taken at send time. A reply is a message: once handed over it must not change (the websocket
// writer reads it after later replies were produced).
//
//	ok
//	changed n=<count> first=<line>:<hex at send time>:<hex now> L<line>=<late batch, entries joined by ','> …
func (w *worker) late() string {
	w.mu.Lock()
	defer w.mu.Unlock()
	n, first := 0, -1
	lines := map[int]bool{}
	for i := range w.replies {
		if !bytes.Equal(w.held[i], w.replies[i]) {
			n++
			if first < 0 {
				first = i
			}
			lines[w.replyLine[i]] = true
		}
	}
	if n == 0 {
		return "ok"
	}
	out := fmt.Sprintf("changed n=%d first=%d:%s:%s", n, w.replyLine[first], hx(w.replies[first]), hx(append([]byte(nil), w.held[first]...)))
	var order []int
	for l := range lines {
		order = append(order, l)
	}
	sort.Ints(order)
	for _, l := range order {
		var rs []reply
		for i := range w.held {
			if w.replyLine[i] == l {
				rs = append(rs, parseReply(append([]byte(nil), w.held[i]...)))
			}
		}
		out += fmt.Sprintf(" L%d=%s", l, strings.ReplaceAll(rawBatch(rs, func(k string) bool { return w.tainted[k] }), " ", ","))
	}
	return out
}

func (w *worker) msg(f []string) string {
	if len(f) < 2 {
		return "bad-op"
	}
	msg := unhx(f[1])
	if msg == nil {
		return "bad-op"
	}
	n0 := w.nreplies()
	w.handleMsg(msg, spareOf(f[2:]))
	if !w.waitFor(w.quiescent, wedgeTimeout) {
		return w.wedge("no quiescence after message " + f[1])
	}
	c := classify(msg)
	w.mu.Lock()
	raw := append([][]byte(nil), w.replies[n0:]...)
	w.mu.Unlock()
	okd := false
	for _, b := range raw {
		r := parseReply(b)
		if r.Op == string(c.Op) && r.Type == "success" {
			okd = true
		}
	}
	if okd {
		switch c.Kind {
		case "insert":
			w.tainted[normKey(c.Arg)] = true
		case "create", "update":
			delete(w.tainted, normKey(c.Arg))
		}
	}
	return w.batch(n0)
}

func (w *worker) end() string {
	n0 := w.nreplies()
	w.teardown()
	return w.batch(n0)
}

// ---- concurrent scenarios -------------------------------------------------------------------

type concStep struct {
	T     string `json:"t"`               // m seed sync hold release sleep cancel-live
	H     string `json:"h,omitempty"`     // message hex / seed key hex
	F     int    `json:"f,omitempty"`     // seed format
	D     string `json:"d,omitempty"`     // seed data hex
	Point string `json:"point,omitempty"` // hold: event point
	Op    string `json:"op,omitempty"`    // hold: operation id hex
	N     int    `json:"n,omitempty"`     // hold: nth occurrence / sleep µs
	ID    int    `json:"id,omitempty"`    // hold id
	C     int    `json:"c,omitempty"`     // m: spare capacity of the request buffer + 1 (0: the default)
}

func (st concStep) spare() int {
	if st.C > 0 {
		return st.C - 1
	}
	return defaultSpare
}

// lateDiff: the n-th reply of the trace (0-based) reads differently at the end of the scenario than when it was sent
type lateDiff struct {
	N   int    `json:"n"`
	Now string `json:"now"`
}

type concScenario struct {
	Seed   int64      `json:"seed"`
	YieldP int        `json:"yieldp"`
	Steps  []concStep `json:"steps"`
	Down   bool       `json:"down,omitempty"` // end with the connection teardown while requests are in flight
	// Expect: notifications the monitor demands (the scenario's construction guarantees that the
	// subscription was registered before the write was issued); ignored by the worker.
	Expect []concExpect `json:"expect,omitempty"`
}

type concExpect struct {
	Sub string `json:"sub"` // operation ID of the subscription (hex)
	Wr  string `json:"wr"`  // operation ID of the write (hex)
	Key string `json:"key"` // written key (hex)
}

type concResult struct {
	Trace []traceEv `json:"trace"`
	Live  []string  `json:"live"` // op ids (hex) of subscriptions cancelled by the epilogue
	Note  string    `json:"note,omitempty"`
	Late  []lateDiff `json:"late,omitempty"`
}

func (w *worker) liveSubOps() []string {
	w.mu.Lock()
	defer w.mu.Unlock()
	var ops []string
	for _, s := range w.subs {
		if !s.exited && !s.cancelled {
			ops = append(ops, s.op)
		}
	}
	sort.Strings(ops)
	return ops
}

func (w *worker) conc(arg string) string {
	var sc concScenario
	if err := json.Unmarshal([]byte(arg), &sc); err != nil {
		return "bad-op"
	}
	w.mu.Lock()
	w.tracing = true
	w.yieldP = sc.YieldP
	w.yrng = rand.New(rand.NewSource(sc.Seed))
	w.mu.Unlock()
	holds := map[int]*hold{}
	releaseAll := func() {
		for _, h := range holds {
			select {
			case <-h.release:
			default:
				close(h.release)
			}
		}
	}
	res := concResult{}
	for _, st := range sc.Steps {
		switch st.T {
		case "m":
			w.handleMsg(unhx(st.H), st.spare())
		case "seed":
			key := string(unhx(st.H))
			r, _ := record.NewWrapper(key, nil, uint8(st.F), unhx(st.D))
			w.privPut(key, r)
		case "hold":
			h := &hold{point: st.Point, op: string(unhx(st.Op)), nth: st.N, reached: make(chan struct{}), release: make(chan struct{}), abandoned: make(chan struct{})}
			holds[st.ID] = h
			w.mu.Lock()
			w.holds = append(w.holds, h)
			w.mu.Unlock()
		case "await": // wait until the hold was reached (bounded: the point may never be reached)
			if h := holds[st.ID]; h != nil {
				select {
				case <-h.reached:
				case <-h.abandoned:
					res.Note += fmt.Sprintf("hold %d not reached (handler returned);", st.ID)
				case <-time.After(wedgeTimeout):
					res.Note += fmt.Sprintf("hold %d not reached (timeout);", st.ID)
				}
			}
		case "release":
			if h := holds[st.ID]; h != nil {
				select {
				case <-h.release:
				default:
					close(h.release)
				}
			}
		case "sleep":
			time.Sleep(time.Duration(st.N) * time.Microsecond)
		case "sync":
			releaseAll()
			if !w.waitFor(w.quiescent, wedgeTimeout) {
				return w.wedge("no quiescence in scenario")
			}
		}
	}
	if sc.Down {
		// teardown with handlers in flight (held ones are released by teardown after the signal)
		w.teardown()
		w.mu.Lock()
		w.trace = append(w.trace, traceEv{K: "down", H: "-"})
		w.mu.Unlock()
	} else {
		releaseAll()
		w.mu.Lock()
		for _, h := range w.holds {
			h.done = true
		}
		w.mu.Unlock()
		if !w.waitFor(w.quiescent, wedgeTimeout) {
			return w.wedge("no quiescence at scenario end")
		}
		// epilogue: cancel every subscription that is still live; each must answer with done
		for round := 0; round < 4; round++ {
			live := w.liveSubOps()
			if len(live) == 0 {
				break
			}
			for _, op := range live {
				res.Live = append(res.Live, hx([]byte(op)))
				w.handleMsg([]byte(op+"|cancel"), defaultSpare)
				if !w.waitFor(w.quiescent, wedgeTimeout) {
					return w.wedge("no quiescence after epilogue cancel")
				}
			}
		}
		w.mu.Lock()
		w.trace = append(w.trace, traceEv{K: "quiet", H: "-"})
		w.mu.Unlock()
	}
	w.teardown()
	w.mu.Lock()
	res.Trace = append([]traceEv(nil), w.trace...)
	// the replies once more, through the slices the send function was given (tracing was on for the whole
	// connection: the n-th "rep" event is the n-th reply)
	for i := range w.replies {
		if !bytes.Equal(w.held[i], w.replies[i]) {
			res.Late = append(res.Late, lateDiff{N: i, Now: hx(append([]byte(nil), w.held[i]...))})
		}
	}
	w.mu.Unlock()
	b, _ := json.Marshal(res)
	return string(b)
}

func workerMain() {
	dir := os.Getenv("HXC13_DIR")
	defer cleanupScratch() // the last worker standing removes the scratch tree when its parent goes away
	ppid := os.Getppid()
	go func() {
		// a parent that was killed cannot clean up, and a wedged worker never sees the closed pipe
		for {
			time.Sleep(500 * time.Millisecond)
			if os.Getppid() != ppid {
				cleanupScratch()
				os.Exit(0)
			}
		}
	}()
	if dir == "" {
		fmt.Fprintln(os.Stderr, "worker: HXC13_DIR not set")
		os.Exit(2)
	}
	if err := database.InitializeWithPath(dir); err != nil {
		fmt.Fprintln(os.Stderr, "worker: init:", err)
		os.Exit(2)
	}
	for _, d := range dbTable {
		if _, err := database.Register(&database.Database{Name: d.Name, Description: "C13 harness " + d.Storage, StorageType: d.Storage, ShadowDelete: d.Shadow}); err != nil {
			fmt.Fprintln(os.Stderr, "worker: register:", err)
			os.Exit(2)
		}
	}
	w := &worker{priv: database.NewInterface(&database.Options{Local: true, Internal: true}), touched: map[string]bool{}, yrng: rand.New(rand.NewSource(1))}
	w.cond = sync.NewCond(&w.mu)
	api.VerifSetSink(w.sink)
	database.VerifSetSink(w.sink)
	// open every database now so that a failing backend shows up at start
	for _, d := range dbTable {
		if d.Kind == "p" {
			if _, err := w.priv.Get(d.Name + ":probe"); err != nil && errClass(err.Error()) != "notfound" {
				fmt.Fprintln(os.Stderr, "worker: open", d.Name, err)
				os.Exit(2)
			}
		}
	}
	_ = query.New // keep import for scenario helpers
	in := bufio.NewReaderSize(os.Stdin, 1<<20)
	out := bufio.NewWriterSize(os.Stdout, 1<<20)
	for {
		line, err := in.ReadString('\n')
		if line == "" && err != nil {
			return
		}
		line = strings.TrimRight(line, "\r\n")
		var res string
		f := strings.Fields(line)
		if len(f) > 0 && f[0] != "reset" {
			w.mu.Lock()
			w.curLine++ // index of this line in its case (reset is not a case line)
			w.mu.Unlock()
		}
		switch {
		case len(f) == 0:
			res = "bad-op"
		case f[0] == "cfg":
			if line == cfgLine() {
				res = "ok"
			} else {
				res = "cfg-mismatch"
			}
		case f[0] == "reset":
			res = w.reset()
		case w.api == nil:
			res = "no-connection"
		case f[0] == "late":
			res = w.late()
		case f[0] == "seed":
			res = w.seed(f)
		case f[0] == "seedstruct":
			res = w.seedStruct(f)
		case f[0] == "m":
			res = w.msg(f)
		case f[0] == "end":
			res = w.end()
		case f[0] == "conc":
			res = w.conc(strings.TrimPrefix(line, "conc "))
		default:
			res = "bad-op"
		}
		out.WriteString(res)
		out.WriteByte('\n')
		out.Flush()
	}
}
