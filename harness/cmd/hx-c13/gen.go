package main

// Generators. Every random choice comes from r.Rng.
//
//   seq        protocol-aware request sequences against one or two databases (every backend), with
//              seeded records of every format / permission flag, duplicate / empty / odd operation IDs,
//              live subscriptions being fed by writes, cancels; compared with the model message by message
//   fuzz       raw byte strings and grammar-mutated messages (model-compared on the backends whose key
//              handling the model covers, implementation-only on the others)
//   conc       concurrent scenarios (conc.go): recorded traces, decided by the Lean acceptor

import (
	"encoding/json"
	"fmt"
	"math/rand"
	"strings"

	"github.com/safing/portbase/database/accessor"
	"github.com/safing/portbase/database/query"
	"github.com/safing/portbase/database/record"
	"github.com/safing/portbase/formats/dsd"
	"github.com/tidwall/gjson"

	"verifharness/hxlib"
)

const ruleText = "every message is handed to Handle as a window into a larger buffer (spare capacity 0 / 1 / 32 / 512 / 4096 bytes, filled with plausible request bytes; per connection fixed or mixed) that nothing touches afterwards, the send function keeps the reply slices it is given, and `late` lines (mid-case, before and after the teardown, at the end of every scenario) read all of them again: they must equal the copies taken at send time and the protocol monitor is run on the late reading too. three case families. seq: 12–40 protocol messages on one connection against 1–2 databases out of 7 (hashmap, hashmap+shadow-delete, bbolt, bbolt+shadow-delete, badger, fstree, sinkhole) or an unregistered name, pre-seeded with records of every dsd format / secret / crown-jewel / expired flag and native struct records; get/query/sub/qsub/cancel/create/update/insert/delete with unique, reused, empty and binary operation IDs, valid and invalid query texts (incl. where clauses), JSON-object (compact and respelled: leading / trailing / inner whitespace incl. LF, TAB, CR, indented, \\u escapes, duplicate member names, empty object, nesting), non-object, non-JSON and too-short payloads; keys of get/delete, key prefixes and quoted operand strings of query/sub/qsub that contain the separator character; each message runs to quiescence and its canonical reply batch is compared with the Lean model. fuzz: raw random byte strings and byte/segment mutations of valid messages. conc: scenarios where messages are issued without waiting, with forced cancel-vs-query / cancel-vs-subscribe / write-vs-subscription schedules and random yields; the recorded request/reply trace is decided by the Lean trace acceptor and the Go monitor. A case is non-trivial if it contains at least one reply other than a malformed/unknown-method error; distinct by the hash of its lines."

type shadowRec struct {
	fm                     byte
	data                   []byte
	obj                    bool
	secret, crown, expired bool
	sv                     *StructRec
}

type pendingQ struct {
	line int
	q    *query.Query
}

type caseGen struct {
	r        *hxlib.Run
	rng      *rand.Rand
	lines    []string
	shadow   map[string]*shadowRec
	payloads map[string][]byte // every (fmt+data) that can be in a database during this case
	pend     []pendingQ
	dbs      []string
	keys     []string
	liveSubs []string
	opN      int
	usedOps  []string
	nontriv  bool
	hasIns   bool
	noWhere  bool // the case contains inserts / native structs: where clauses could not be evaluated by the generator
	noModel  bool
	kind     string
	capPol   int // request buffers: 0 not drawn yet, 1 mixed, 2 always 512 (gorilla's ReadMessage), 3 exact fit, 4 4096, 5 one spare byte
}

var spareClasses = []int{0, 1, 32, 512, 4096}

// spare: the spare capacity behind the next message in its buffer (a request arrives in a reader's buffer, not in an
// exact-fit literal)
func (g *caseGen) spare() int {
	if g.capPol == 0 {
		g.capPol = 1 + g.rng.Intn(5)
		if g.rng.Intn(2) == 0 {
			g.capPol = 1
		}
	}
	n := 0
	switch g.capPol {
	case 1:
		n = spareClasses[g.rng.Intn(len(spareClasses))]
	case 2:
		n = 512
	case 3:
		n = 0
	case 4:
		n = 4096
	default:
		n = 1
	}
	g.r.Count(fmt.Sprintf("reqbuf-spare:%d", n))
	return n
}

var kindOfDb = map[string]string{}

func init() {
	for _, d := range dbTable {
		kindOfDb[d.Name] = d.Kind
	}
}

func newCase(r *hxlib.Run, kind string) *caseGen {
	g := &caseGen{r: r, rng: r.Rng, shadow: map[string]*shadowRec{}, payloads: map[string][]byte{}, kind: kind}
	g.lines = []string{cfgLine()}
	return g
}

func (g *caseGen) pick(xs ...string) string { return xs[g.rng.Intn(len(xs))] }

// ---- JSON material --------------------------------------------------------------------------------

var strVals = []string{"x", "", "a|b", "ü", "with space", `q"uote`, "new\nline", "0", "true", "x|y", "x", "a"}

func (g *caseGen) jsonVal(kind byte, depth int) any {
	switch kind {
	case 's':
		return strVals[g.rng.Intn(len(strVals))]
	case 'n':
		switch g.rng.Intn(4) {
		case 0:
			return g.rng.Intn(10)
		case 1:
			return -g.rng.Intn(1000)
		case 2:
			return float64(g.rng.Intn(1000)) / 8
		default:
			return g.rng.Int63n(1 << 40)
		}
	case 'b':
		return g.rng.Intn(2) == 0
	case 'o':
		if depth > 1 {
			return map[string]any{}
		}
		return g.jsonObj(depth + 1)
	default:
		n := g.rng.Intn(3)
		a := make([]any, n)
		for i := range a {
			a[i] = g.jsonVal("snb"[g.rng.Intn(3)], depth+1)
		}
		return a
	}
}

var fieldNames = []string{"s1", "s2", "n1", "n2", "b1", "o1", "a1"}

func (g *caseGen) jsonObj(depth int) map[string]any {
	m := map[string]any{}
	n := g.rng.Intn(4)
	if depth == 0 && g.rng.Intn(8) > 0 {
		n++
	}
	for i := 0; i < n; i++ {
		f := fieldNames[g.rng.Intn(len(fieldNames))]
		m[f] = g.jsonVal(f[0], depth)
	}
	return m
}

func compact(v any) []byte {
	b, _ := json.Marshal(v)
	return b
}

// spell renders a JSON object the way some client may write it: the same JSON value in another spelling (leading /
// trailing / inner whitespace incl. newline, tab and CR, indented, \u escapes in names and strings, duplicate member
// names, deeper nesting, the empty object). The content read back is compared as a JSON value by the monitor.
func (g *caseGen) spell(m map[string]any) []byte {
	c := compact(m)
	ws := func() string { return g.pick(" ", "\n", "\t", "\r", "\r\n", "  ", " \n\t", "\n\n", "\t\t ") }
	x := g.rng.Intn(10)
	g.r.Count(fmt.Sprintf("payload:spelling:%s", []string{"lead-ws", "trail-ws", "both-ws", "indented", "inner-ws", "escapes", "dup-member", "empty-object", "nested", "lead-ws+inner"}[x]))
	switch x {
	case 0:
		return []byte(ws() + string(c))
	case 1:
		return []byte(string(c) + ws())
	case 2:
		return []byte(ws() + string(c) + ws())
	case 3:
		b, err := json.MarshalIndent(m, g.pick("", "", " ", "\t"), g.pick("  ", "\t", " ", ""))
		if err != nil {
			return c
		}
		if g.rng.Intn(3) == 0 {
			b = append([]byte(g.pick("\n", " ", "\r\n")), b...)
		}
		return b
	case 4:
		return g.innerWS(c, ws)
	case 5:
		return g.escapes(c)
	case 6:
		f := g.pick("dup", "dup", fieldNames[g.rng.Intn(len(fieldNames))])
		a, b := compact(g.jsonVal("snb"[g.rng.Intn(3)], 1)), compact(g.jsonVal("snb"[g.rng.Intn(3)], 1))
		sep := ","
		if len(c) == 2 {
			sep = ""
		}
		return []byte(string(c[:len(c)-1]) + sep + `"` + f + `":` + string(a) + `,"` + f + `":` + string(b) + "}")
	case 7:
		return []byte(g.pick("{}", "{ }", " {}", "{}\n", "{\n}", "\t{\r\n}\n", " { } "))
	case 8:
		d := map[string]any{"o1": map[string]any{"o1": map[string]any{"o1": map[string]any{}, "a1": []any{map[string]any{"s1": "x"}, []any{}}}, "s1": "x"}}
		for k, v := range m {
			if k != "o1" {
				d[k] = v
			}
		}
		if g.rng.Intn(2) == 0 {
			return g.innerWS(compact(d), ws)
		}
		return compact(d)
	default:
		return append([]byte(ws()), g.innerWS(c, ws)...)
	}
}

// innerWS inserts insignificant whitespace around the structural characters of a compact JSON text.
func (g *caseGen) innerWS(c []byte, ws func() string) []byte {
	var o []byte
	inStr, esc := false, false
	for _, ch := range c {
		if inStr {
			o = append(o, ch)
			switch {
			case esc:
				esc = false
			case ch == '\\':
				esc = true
			case ch == '"':
				inStr = false
			}
			continue
		}
		if (ch == '}' || ch == ']') && g.rng.Intn(2) == 0 {
			o = append(o, ws()...)
		}
		o = append(o, ch)
		if ch == '"' {
			inStr = true
		}
		if (ch == '{' || ch == '[' || ch == ',' || ch == ':') && g.rng.Intn(2) == 0 {
			o = append(o, ws()...)
		}
	}
	return o
}

// escapes respells characters inside the strings (member names and values) of a compact JSON text as \uXXXX / \/.
func (g *caseGen) escapes(c []byte) []byte {
	var o []byte
	inStr, esc := false, false
	for _, ch := range c {
		switch {
		case !inStr:
			o = append(o, ch)
			inStr = ch == '"'
		case esc:
			o = append(o, ch)
			esc = false
		case ch == '\\':
			o = append(o, ch)
			esc = true
		case ch == '"':
			o = append(o, ch)
			inStr = false
		case ch == '/' && g.rng.Intn(2) == 0:
			o = append(o, '\\', '/')
		case ch < 0x80 && g.rng.Intn(2) == 0:
			o = append(o, fmt.Sprintf("\\u%04x", ch)...)
		default:
			o = append(o, ch)
		}
	}
	return o
}

func isJSONObject(b []byte) bool { return gjson.ValidBytes(b) && gjson.ParseBytes(b).IsObject() }

// payload returns format byte + body and whether the model comparison can follow it.
func (g *caseGen) payload() []byte {
	switch x := g.rng.Intn(20); {
	case x < 8:
		return append([]byte{'J'}, compact(g.jsonObj(0))...)
	case x < 12:
		return append([]byte{'J'}, g.spell(g.jsonObj(0))...) // the same kind of object in another spelling
	case x < 13:
		return append([]byte{'J'}, []byte(g.pick("5", "[1,2]", `"str"`, "null", "garbage", "{", `{"a":`, "true"))...)
	case x < 16:
		f := []byte{'C', 'M', 'Y', 'G', 1, 0, 'Z', 'L', 'j', '{'}[g.rng.Intn(10)]
		b := make([]byte, 1+g.rng.Intn(6))
		g.rng.Read(b)
		return append([]byte{f}, b...)
	case x < 17:
		if g.rng.Intn(2) == 0 {
			// the real codecs: CBOR / MsgPack / YAML / JSON encodings of an object, plain or gzip-wrapped
			f := []uint8{dsd.CBOR, dsd.MsgPack, dsd.YAML, dsd.JSON}[g.rng.Intn(4)]
			var b []byte
			var err error
			if g.rng.Intn(4) == 0 {
				b, err = dsd.DumpAndCompress(g.jsonObj(0), f, dsd.GZIP)
			} else {
				b, err = dsd.Dump(g.jsonObj(0), f)
			}
			if err == nil && len(b) >= 2 {
				g.r.Count("payload:real-codec")
				return b
			}
		}
		// dictionary values that mean something to some layer
		g.r.Count("payload:dictionary")
		if g.noModel && g.rng.Intn(3) == 0 {
			// payloads with their own _meta member: the read side replaces it (implementation-only cases; the
			// monitor compares content modulo _meta)
			return []byte(g.pick("J{\"_meta\":{\"Key\":\"x\"}}", "J{\"_meta\":null,\"a\":1}", "J{\"a\":1,\"_meta\":5,\"b\":2}"))
		}
		return []byte(g.pick("J\xef\xbb\xbf{}", "Jnull", "J{", `J""`, "J\x1f\x8b\x08\x00", "J\x00", "J{}\x00", "J{\"a\":1}{\"b\":2}", "J[{}]", "JJ{}",
			"J{\"a\":\"\\ud800\"}", "J{\"a\":1e400}", "J{\"\":0}", "J{\"a.b\":1,\"a\":{\"b\":2}}", "C\xa1aa\x01", "M\x81\xa1a\x01", "Ya: 1\n", "Z\x1f\x8b\x08", "L\x00", "\x01raw", "G\x00\x00"))
	case x < 0:
		return append([]byte{'C'}, compact(g.jsonObj(0))...) // JSON text under a non-JSON format byte
	case x < 18:
		return []byte(g.pick("", "J", "C", "{"))
	default:
		return append([]byte{'J'}, compact(g.jsonObj(0))...)
	}
}

// ---- operation IDs, keys, queries ------------------------------------------------------------

func (g *caseGen) newOp() string {
	g.opN++
	var op string
	switch x := g.rng.Intn(40); {
	case x < 30:
		op = fmt.Sprint(g.opN)
	case x < 32 && len(g.usedOps) > 0:
		op = g.usedOps[g.rng.Intn(len(g.usedOps))] // reuse (possibly of a live subscription)
		g.r.Count("opid:reused")
	case x < 34:
		op = ""
		g.r.Count("opid:empty")
	case x < 36:
		b := make([]byte, 1+g.rng.Intn(4))
		g.rng.Read(b)
		op = strings.ReplaceAll(string(b), "|", "!")
		g.r.Count("opid:binary")
	case x < 37:
		op = g.pick("cancel", "get", " ", "1 2", "é", "\x00", "a:b")
	default:
		op = fmt.Sprintf("op-%d", g.opN)
	}
	g.usedOps = append(g.usedOps, op)
	return op
}

func (g *caseGen) key() string {
	if len(g.keys) > 0 && g.rng.Intn(10) < 8 {
		return g.keys[g.rng.Intn(len(g.keys))]
	}
	switch g.rng.Intn(12) {
	case 0:
		return g.pick("nodb:a", "xx:k1", ":k", "", "nokey", "hmap", "nodb", "Hmap:k1", ":"+g.dbs[0]+":k1", ":"+g.dbs[0]+":", "::")
	default:
		return g.freshKey()
	}
}

// barKey: a key for get / delete that contains the separator character (everything after the method is the key):
// an existing key followed by `|` and more, so that a request cut at that bar would address a record that is there.
func (g *caseGen) barKey() string {
	k := g.key()
	if g.rng.Intn(8) > 0 {
		return k
	}
	g.r.Count("key:with-separator")
	switch g.rng.Intn(5) {
	case 0:
		return k + "|"
	case 1:
		return k + "|J{}"
	case 2:
		if i := strings.IndexByte(k, ':'); i >= 0 && i+2 < len(k) {
			return k[:i+2] + "|" + k[i+2:]
		}
		return k + "||"
	case 3:
		return k + "|" + g.key()
	default:
		return k + "|x"
	}
}

func (g *caseGen) freshKey() string {
	db := g.dbs[g.rng.Intn(len(g.dbs))]
	alpha := "abk01"
	n := 1 + g.rng.Intn(3)
	b := []byte{'k'}
	for i := 0; i < n; i++ {
		b = append(b, alpha[g.rng.Intn(len(alpha))])
	}
	if db != "fstr" && g.rng.Intn(6) == 0 {
		b = append(b, "/x"...)
	}
	k := db + ":" + string(b)
	g.keys = append(g.keys, k)
	return k
}

func (g *caseGen) queryText(valid bool) string {
	db := g.dbs[g.rng.Intn(len(g.dbs))]
	if g.rng.Intn(12) == 0 {
		db = g.pick("nodb", "", "sink", "hmap")
	}
	pfx := g.pick("", "k", "k", "ka", "kb", "k0", "z")
	if db == "fstr" {
		pfx = g.pick("", "k") // every fstree key of a case starts with k: the backend's missing prefix filter (C02) stays invisible
	}
	if db != "fstr" && g.rng.Intn(14) == 0 {
		// the separator character inside the key prefix: everything after the method is the query text
		pfx = g.pick("k|", "k|a", "|", "k|k", pfx+"|x")
		g.r.Count("query:prefix-with-separator")
	}
	q := "query " + db + ":" + pfx
	if !valid {
		return g.pick(db+":"+pfx, "", "query", "select * from x", q+" where", q+" where a", q+" where a ==", q+" limit x", q+" limit -1",
			q+" bogus", q+" where a == 1 and b == 2 or c == 3", q+" where (a == 1", q+` where a == "x`, q+" limit 1 limit 2", q+" where a sameas 1 where b sameas 2",
			q+" where a matches (", q+" where a > x", "QUERY "+db+":", q+" offset 99999999999")
	}
	if !g.noWhere && g.rng.Intn(4) == 0 {
		// a where clause printed from the harness's own condition tree (ownquery.go): the monitor knows what it means
		q += " where " + ownTree(g.rng, 0).print(true)
		g.r.Count("query:where-own-tree")
	} else if !g.noWhere && g.rng.Intn(3) == 0 {
		q += " where " + g.pick("s1 sameas x", "n1 > 3", "n1 < 100", "b1 is true", "s1 exists", "not s1 exists", "s2 contains a", "n2 == 5",
			"(s1 sameas x or n1 > 3)", "s1 sameas x and b1 is true", "o1.s1 sameas x", "s1 startswith a", `s1 sameas "with space"`, "a1 exists", "n1 f> 2.5",
			`s1 sameas "a|b"`, "s1 contains |", `s2 sameas "x|y" or s1 sameas "x|y"`, "s1 not sameas x|y")
		g.r.Count("query:where")
	}
	if g.rng.Intn(5) == 0 {
		q += g.pick(" orderby s1", " limit 1", " limit 2 offset 1", " offset 3", " orderby n1 limit 5")
		g.r.Count("query:paging-clause")
	}
	return q
}

// ---- library oracles (parameters of the model) --------------------------------------------------------

func insertOracle(data, payload []byte) (nd []byte, ok bool) {
	defer func() {
		if recover() != nil {
			ok = false
		}
	}()
	d := append([]byte(nil), data...)
	acc := accessor.NewJSONBytesAccessor(&d)
	any := false
	var ierr error
	gjson.ParseBytes(payload).ForEach(func(k, v gjson.Result) bool {
		any = true
		if !k.Exists() || k.Type != gjson.String || !v.Exists() {
			ierr = fmt.Errorf("bad entry")
			return false
		}
		ierr = acc.Set(k.String(), v.Value())
		return ierr == nil
	})
	return d, ierr == nil && any
}

func structInsertOracle(sv *StructRec, payload []byte) (nv *StructRec, ok bool) {
	defer func() {
		if recover() != nil {
			nv, ok = sv, false
		}
	}()
	cp := &StructRec{}
	b, _ := json.Marshal(sv)
	_ = json.Unmarshal(b, cp)
	acc := accessor.NewStructAccessor(cp)
	any := false
	var ierr error
	gjson.ParseBytes(payload).ForEach(func(k, v gjson.Result) bool {
		any = true
		if !k.Exists() || k.Type != gjson.String || !v.Exists() {
			ierr = fmt.Errorf("bad entry")
			return false
		}
		ierr = acc.Set(k.String(), v.Value())
		return ierr == nil
	})
	if ierr != nil || !any {
		return sv, false
	}
	return cp, true
}

// ---- emitting lines with annotations -----------------------------------------------------------------

func (g *caseGen) visible(key string) *shadowRec {
	s := g.shadow[key]
	if s == nil || s.expired {
		return nil
	}
	return s
}

func dbOfKey(key string) (string, string) {
	return record.ParseKey(key)
}

func (g *caseGen) remember(fm byte, data []byte) {
	p := append([]byte{fm}, data...)
	g.payloads[string(p)] = p
}

// msg appends one message line, computing the annotations and updating the generator's shadow of the
// databases (used only to steer generation and to evaluate the library parameters).
func (g *caseGen) msg(m []byte) {
	c := classify(m)
	ann := ""
	g.r.Count("msg:" + c.Kind)
	switch c.Kind {
	case "query", "sub", "qsub":
		q, err := query.ParseQuery(c.Arg)
		if err != nil {
			ann = " q=-"
			g.r.Count("query:parse-error")
		} else {
			ann = " q=?"
			g.pend = append(g.pend, pendingQ{len(g.lines), q})
			if c.Kind != "query" && kindOfDb[q.DatabaseName()] != "" {
				g.liveSubs = append(g.liveSubs, string(c.Op))
			}
		}
	case "create", "update":
		if len(c.Payload) >= 2 {
			fm, body := c.Payload[0], c.Payload[1:]
			obj := isJSONObject(body)
			if fm == 'J' && !obj {
				ann = " o=0"
				g.r.Count("payload:json-not-object")
			}
			if fm != 'J' {
				g.r.Count("payload:non-json-format")
			}
			dn, _ := dbOfKey(c.Arg)
			if kindOfDb[dn] == "p" {
				old := g.visible(c.Arg)
				if old == nil || (!old.secret && !old.crown) {
					g.shadow[c.Arg] = &shadowRec{fm: fm, data: append([]byte(nil), body...), obj: obj}
				}
			}
			g.remember(fm, body)
		} else {
			g.r.Count("payload:too-short")
		}
	case "insert":
		g.hasIns = true
		if s := g.visible(c.Arg); s != nil && !s.secret && !s.crown {
			switch {
			case s.sv != nil:
				nv, ok := structInsertOracle(s.sv, c.Payload)
				if ok {
					s.sv = nv
					s.data, _ = json.Marshal(nv)
				} else {
					ann = " i=0"
				}
			case s.fm == 'J' && len(s.data) > 0:
				nd, ok := insertOracle(s.data, c.Payload)
				if ok {
					s.data = nd
					s.obj = isJSONObject(nd)
					if !s.obj {
						ann = " o=0" // what the JSON library made of the data is not an object
					}
				} else {
					ann = " i=0"
				}
			}
			if !strings.Contains(ann, "i=0") {
				g.r.Count("insert:accepted")
			} else {
				g.r.Count("insert:rejected-by-json-lib")
			}
		}
	case "delete":
		if s := g.visible(c.Arg); s != nil && !s.secret && !s.crown {
			delete(g.shadow, c.Arg)
		}
	case "cancel":
		for i, o := range g.liveSubs {
			if o == string(c.Op) {
				g.liveSubs = append(g.liveSubs[:i], g.liveSubs[i+1:]...)
				break
			}
		}
	}
	if c.Kind != "malformed" && c.Kind != "unknown" {
		g.nontriv = true
	}
	g.lines = append(g.lines, "m "+hx(m)+ann+fmt.Sprintf(" c=%d", g.spare()))
}

func (g *caseGen) seed(key string, fm byte, data []byte, flags string) {
	obj := isJSONObject(data)
	fl := flags
	if fm == 'J' && !obj {
		fl += "n"
	}
	if fl == "" {
		fl = "-"
	}
	g.lines = append(g.lines, fmt.Sprintf("seed %s %d %s %s", hx([]byte(key)), fm, hx(data), fl))
	g.shadow[key] = &shadowRec{fm: fm, data: data, obj: obj, secret: strings.Contains(flags, "s"), crown: strings.Contains(flags, "c"), expired: strings.Contains(flags, "x")}
	g.remember(fm, data)
	g.r.Count(fmt.Sprintf("seed:fmt=%d", fm))
	if flags != "" {
		g.r.Count("seed:flags=" + flags)
	}
}

func (g *caseGen) seedStruct(key string) {
	sv := &StructRec{Name: g.pick("n", "x", ""), Score: g.rng.Intn(100), Tags: []string{"a", "b"}[:g.rng.Intn(3)], Flag: g.rng.Intn(2) == 0}
	if g.rng.Intn(2) == 0 {
		sv.Attr = map[string]string{"k": "v"}
	}
	b, _ := json.Marshal(sv)
	g.lines = append(g.lines, fmt.Sprintf("seedstruct %s %s", hx([]byte(key)), hx(b)))
	g.shadow[key] = &shadowRec{fm: 'J', data: b, obj: true, sv: sv}
	g.remember('J', b)
	g.r.Count("seed:struct")
}

// flush resolves the query annotations (now that every payload of the case is known) and emits.
func (g *caseGen) flush(emit func(hxlib.Case)) {
	for _, p := range g.pend {
		q := p.q
		w := "*"
		if strings.Contains(q.Print(), " where ") {
			var hits []string
			for _, pl := range g.payloads {
				wr, _ := record.NewWrapper("x:y", nil, pl[0], pl[1:])
				if q.MatchesRecord(wr) {
					hits = append(hits, hx(pl))
				}
			}
			if len(hits) == 0 {
				w = "."
			} else {
				sortStrings(hits)
				w = strings.Join(hits, ",")
			}
		}
		ann := fmt.Sprintf("q=%s:%s:%s", hx([]byte(q.DatabaseName())), hx([]byte(q.DatabaseKeyPrefix())), w)
		g.lines[p.line] = strings.Replace(g.lines[p.line], "q=?", ann, 1)
	}
	// every reply once more, through the slices the send function was given: before and after the teardown
	if g.rng.Intn(2) == 0 {
		g.lines = append(g.lines, "late")
	}
	g.lines = append(g.lines, "end", "late")
	emit(hxlib.Case{Lines: g.lines, NonTrivial: g.nontriv, Kind: g.kind, NoModel: g.noModel})
}

func sortStrings(s []string) {
	for i := 1; i < len(s); i++ {
		for j := i; j > 0 && s[j] < s[j-1]; j-- {
			s[j], s[j-1] = s[j-1], s[j]
		}
	}
}

func bars(parts ...string) []byte { return []byte(strings.Join(parts, "|")) }

// ---- seq cases ---------------------------------------------------------------------------------------

func (g *caseGen) seqCase(emit func(hxlib.Case)) {
	all := []string{"hmap", "hmsd", "bolt", "blsd", "bdgr", "fstr", "sink"}
	g.dbs = []string{all[g.rng.Intn(len(all))]}
	if g.rng.Intn(3) == 0 {
		g.dbs = append(g.dbs, all[g.rng.Intn(len(all))])
	}
	for _, d := range g.dbs {
		g.r.Count("db:" + d)
	}
	g.noWhere = g.rng.Intn(2) == 0
	for _, d := range g.dbs {
		if (d == "hmap" || d == "hmsd") && g.rng.Intn(3) == 0 {
			g.keys = append(g.keys, d) // a key without colon: database name only, empty record key (hashmap accepts it)
			g.r.Count("key:without-colon")
		}
	}
	// seeds: records of every format and flag
	for i, n := 0, g.rng.Intn(5); i < n; i++ {
		k := g.freshKey()
		dn, _ := dbOfKey(k)
		switch x := g.rng.Intn(12); {
		case x < 5:
			g.seed(k, 'J', compact(g.jsonObj(0)), g.pick("", "", "", "s", "c", "x", "sc"))
		case x < 8:
			f := []byte{'C', 'M', 'Y', 'G', 1, 0, 'Z'}[g.rng.Intn(7)]
			b := make([]byte, 1+g.rng.Intn(5))
			g.rng.Read(b)
			g.seed(k, f, b, g.pick("", "", "s"))
		case x < 9:
			g.seed(k, 'J', []byte(g.pick("5", "[1]", "nope", "{")), "")
		case x < 10:
			g.seed(k, 'J', []byte{}, "")
		case x < 11 && dn != "hmap" && dn != "hmsd":
			g.seed(k, 'J', compact(g.jsonObj(0)), "")
		default:
			if (dn == "hmap" || dn == "hmsd") && g.noWhere {
				g.seedStruct(k)
			} else {
				g.seed(k, 'J', compact(g.jsonObj(0)), "")
			}
		}
	}
	n := 12 + g.rng.Intn(28)
	if g.rng.Intn(25) == 0 {
		n = 100 + g.rng.Intn(150) // long-lived connection
		g.r.Count("seq:long")
	}
	for i := 0; i < n; i++ {
		if g.rng.Intn(16) == 0 {
			// another (privileged) interface writes while subscriptions are live: all formats and flags
			k := g.key()
			if dn, dk := dbOfKey(k); kindOfDb[dn] != "" && dk != "" {
				if g.rng.Intn(3) == 0 {
					f := []byte{'C', 'M', 'Y', 'G', 1, 0}[g.rng.Intn(6)]
					g.seed(k, f, []byte{1, 2, 3}, g.pick("", "s"))
				} else {
					g.seed(k, 'J', compact(g.jsonObj(0)), g.pick("", "", "s", "c", "sc", "x"))
				}
				g.r.Count("seed:mid-case")
			}
		}
		if g.rng.Intn(40) == 0 {
			g.lines = append(g.lines, "late") // read the replies so far again, k further operations follow
		}
		op := g.newOp()
		switch x := g.rng.Intn(100); {
		case x < 16:
			g.msg(bars(op, "get", g.barKey()))
		case x < 28:
			g.msg(bars(op, "query", g.queryText(g.rng.Intn(6) > 0)))
		case x < 38:
			g.msg(bars(op, "sub", g.queryText(g.rng.Intn(8) > 0)))
		case x < 44:
			g.msg(bars(op, "qsub", g.queryText(g.rng.Intn(8) > 0)))
		case x < 52:
			if len(g.liveSubs) > 0 && g.rng.Intn(5) > 0 {
				op = g.liveSubs[g.rng.Intn(len(g.liveSubs))]
			}
			g.msg(bars(op, "cancel"))
		case x < 64:
			g.msg(append(bars(op, "create", g.key(), ""), g.payload()...))
		case x < 74:
			g.msg(append(bars(op, "update", g.key(), ""), g.payload()...))
		case x < 84:
			if sk := g.structKeys(); len(sk) > 0 && g.rng.Intn(2) == 0 {
				// native struct record: every field with every JSON value kind
				f := g.pick("Name", "Score", "Tags", "Attr", "Flag", "Base", "Mutex", "Nope", "dbName", "meta")
				g.msg(append(bars(op, "insert", sk[g.rng.Intn(len(sk))], ""), compact(map[string]any{f: g.jsonVal("snboa"[g.rng.Intn(5)], 1)})...))
				g.r.Count("insert:into-native-struct")
			} else if g.noWhere {
				g.msg(append(bars(op, "insert", g.key(), ""), g.insertPayload()...))
			} else {
				g.msg(append(bars(op, "update", g.key(), ""), g.payload()...))
			}
		case x < 92:
			g.msg(bars(op, "delete", g.barKey()))
		case x < 94:
			g.msg(bars(op, g.pick("foo", "GET", "", "cancel", "subs", "put")+g.pick("", "x"), g.key()))
		case x < 96:
			g.msg(bars(op, g.pick("create", "update", "insert"), g.key())) // no payload separator
		case x < 98:
			g.msg([]byte(g.pick(op, op+"|", op+"|get", op+"|cancelx", "", "|", "||", "cancel", "|cancel")))
		default:
			g.msg(bars(op, "get", g.key(), "extra|bars"))
		}
	}
	g.flush(emit)
}

func (g *caseGen) structKeys() (ks []string) {
	for _, k := range g.keys {
		if s := g.shadow[k]; s != nil && s.sv != nil {
			ks = append(ks, k)
		}
	}
	return ks
}

func (g *caseGen) insertPayload() []byte {
	p := g.insertPayload0()
	if g.rng.Intn(5) == 0 && isJSONObject(p) {
		g.r.Count("insert:payload-spelling")
		ws := func() string { return g.pick(" ", "\n", "\t", "\r\n", "  ") }
		switch g.rng.Intn(4) {
		case 0:
			return append([]byte(ws()), p...)
		case 1:
			return append(p, ws()...)
		case 2:
			return g.innerWS(p, ws)
		default:
			return g.escapes(p)
		}
	}
	return p
}

func (g *caseGen) insertPayload0() []byte {
	switch x := g.rng.Intn(12); {
	case x < 5:
		f := fieldNames[g.rng.Intn(len(fieldNames))]
		return compact(map[string]any{f: g.jsonVal(f[0], 1)})
	case x < 7:
		f := fieldNames[g.rng.Intn(len(fieldNames))]
		return compact(map[string]any{f: g.jsonVal("snb"[g.rng.Intn(3)], 1)}) // possibly a type clash with the stored value
	case x < 8:
		return compact(map[string]any{g.pick("Name", "Score", "Tags", "Attr", "Flag", "Base", "Nope", "dbName"): g.jsonVal("snboa"[g.rng.Intn(5)], 1)})
	case x < 9:
		return []byte(g.pick("{}", "5", "[1]", "nope", "", `"s"`, "null", "{", `{"a"`, `{"":1}`, `{"a.b":1}`, `{"a.-1":1}`, `{"*":1}`, `{"#":1}`, `{"@this":1}`))
	case x < 10:
		return compact(map[string]any{"new" + fmt.Sprint(g.rng.Intn(3)): g.jsonVal("snboa"[g.rng.Intn(5)], 1)})
	case x < 11:
		// several values, a later one possibly refused (type clash): nothing may be applied then
		f := fieldNames[g.rng.Intn(len(fieldNames))]
		return []byte(`{"n8":1,"` + f + `":` + string(compact(g.jsonVal("snb"[g.rng.Intn(3)], 1))) + `,"s8":"v"}`)
	default:
		return compact(map[string]any{"n9": 1, "s9": "v"}) // several fresh keys, all acceptable
	}
}

// ---- fuzz cases -------------------------------------------------------------------------------------

func (g *caseGen) validMsg() []byte {
	op := g.newOp()
	switch g.rng.Intn(9) {
	case 0:
		return bars(op, "get", g.barKey())
	case 1:
		return bars(op, "query", g.queryText(true))
	case 2:
		return bars(op, "sub", g.queryText(true))
	case 3:
		return bars(op, "qsub", g.queryText(true))
	case 4:
		return bars(op, "cancel")
	case 5:
		return append(bars(op, "create", g.key(), ""), g.payload()...)
	case 6:
		return append(bars(op, "update", g.key(), ""), g.payload()...)
	case 7:
		return append(bars(op, "insert", g.key(), ""), g.insertPayload()...)
	default:
		return bars(op, "delete", g.barKey())
	}
}

func (g *caseGen) mutate(m []byte) []byte {
	m = append([]byte(nil), m...)
	for k := 1 + g.rng.Intn(3); k > 0; k-- {
		switch g.rng.Intn(9) {
		case 0:
			if len(m) > 0 {
				m[g.rng.Intn(len(m))] = byte(g.rng.Intn(256))
			}
		case 1:
			if len(m) > 0 {
				m = m[:g.rng.Intn(len(m))]
			}
		case 2:
			i := g.rng.Intn(len(m) + 1)
			m = append(m[:i], append([]byte{'|'}, m[i:]...)...)
		case 3:
			if i := strings.IndexByte(string(m), '|'); i >= 0 {
				m = append(m[:i], m[i+1:]...)
			}
		case 4:
			i := g.rng.Intn(len(m) + 1)
			ins := make([]byte, 1+g.rng.Intn(4))
			g.rng.Read(ins)
			m = append(m[:i], append(ins, m[i:]...)...)
		case 5:
			m = append(m, m...)
		case 6:
			if len(m) > 1 {
				i := g.rng.Intn(len(m) - 1)
				m[i], m[i+1] = m[i+1], m[i]
			}
		case 7:
			m = append(m, []byte(g.pick("|", "||", "|J{}", ":", "\x00", "\n", " where a == 1", " limit 1"))...)
		default:
			if len(m) > 0 {
				i := g.rng.Intn(len(m))
				m[i] ^= 1 << uint(g.rng.Intn(8))
			}
		}
	}
	return m
}

func (g *caseGen) fuzzCase(emit func(hxlib.Case), modelled bool) {
	g.noWhere = true
	if modelled {
		g.dbs = []string{g.pick("hmap", "hmsd", "sink", "hmap")}
		g.kind = "fuzz-modelled"
	} else {
		g.dbs = []string{g.pick("bolt", "blsd", "bdgr", "fsfz")}
		g.kind = "fuzz-impl-only"
		g.noModel = true
	}
	n := 20 + g.rng.Intn(40)
	for i := 0; i < n; i++ {
		switch x := g.rng.Intn(10); {
		case x < 3:
			b := make([]byte, g.rng.Intn(24))
			g.rng.Read(b)
			if g.rng.Intn(2) == 0 {
				for j := range b {
					b[j] = "|:abcget query{}J\"19 "[int(b[j])%21]
				}
			}
			g.msg(b)
		case x < 5:
			g.msg(g.validMsg())
		case x < 6:
			// magnitude classes drawn uniformly by bit length: operation ID, key and payload sizes
			big := func(maxBits int) string {
				n := 1 << uint(g.rng.Intn(maxBits+1))
				n += g.rng.Intn(n)
				b := make([]byte, n)
				for j := range b {
					b[j] = "abcdefghij0123456789"[g.rng.Intn(20)]
				}
				return string(b)
			}
			k := g.dbs[0] + ":k" + big(10)
			g.keys = append(g.keys, k)
			g.r.Count("fuzz:size-classes")
			g.msg(append(bars(big(9), g.pick("create", "update"), k, ""), append([]byte{'J'}, compact(map[string]any{"s1": big(16)})...)...))
			g.msg(bars(big(9), "get", k))
		default:
			m := g.mutate(g.validMsg())
			if !modelled || g.modelSafe(m) {
				g.msg(m)
			}
		}
	}
	g.flush(emit)
}

// modelSafe: mutated messages may address any database; the model comparison is kept to the backends
// whose key handling the model covers (hashmap, sinkhole, unregistered).
func (g *caseGen) modelSafe(m []byte) bool {
	c := classify(m)
	name := ""
	switch c.Kind {
	case "get", "delete", "create", "update", "insert":
		name, _ = dbOfKey(c.Arg)
	case "query", "sub", "qsub":
		if q, err := query.ParseQuery(c.Arg); err == nil {
			name = q.DatabaseName()
		}
	}
	switch name {
	case "bolt", "blsd", "bdgr", "fstr", "fsfz":
		return false
	}
	return true
}

func generate(r *hxlib.Run, emit func(hxlib.Case)) {
	regressionCases(r, emit)
	nSeq := r.Budget(1700, 24000)
	nFuzz := r.Budget(600, 8000)
	nConc := r.Budget(700, 6000)
	for i := 0; i < nSeq; i++ {
		if crashes >= 8 {
			r.Count("generation-stopped-after-8-dead-workers")
			break // the verdict is settled; every further crash / wedge costs a worker restart or a timeout
		}
		newCase(r, "seq").seqCase(emit)
		if i%3 == 0 && i/3 < nFuzz {
			newCase(r, "fuzz").fuzzCase(emit, i%2 == 0)
		}
		if i%4 == 0 && i/4 < nConc {
			concCase(r, emit)
		}
	}
}
