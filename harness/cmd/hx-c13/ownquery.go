package main

// Where clauses with a meaning the harness knows without asking portbase's query parser.
//
// The generator builds a small condition tree of its own (qNode), prints it in the grammar of
// database/query/README.md (and/or chains without mixing, parenthesised groups, `not` in front of a group,
// `not` in front of a clause, `not` inside a clause, in-lists, the int / string / bool / exists operators) and
// sends that text through the API. The monitor reads the text back with the small parser below — a parser of the
// printer's own output, nothing else is accepted — and evaluates the tree on the JSON content of every record
// the API returns for the query or announces for the subscription ("query yields the records of the query",
// "sub yields upd/new notifications for matching changes"), and on the records it knows to be in the database.
// Nothing here calls into database/query.

import (
	"bytes"
	"encoding/json"
	"math/rand"
	"strconv"
	"strings"
)

type qNode struct {
	Kind  string // "and" | "or" | "not" | "cond"
	Kids  []*qNode
	Field string
	Op    string
	Val   string
	Neg   bool // cond: `field not op value`
}

var (
	ownStrFields  = []string{"s1", "s2"}
	ownIntFields  = []string{"n1", "n2"}
	ownStrVals    = []string{"x", "0", "true", "a", "with space", "ü", "x|y", "a|b", "|", "x|y"}
	ownStrOps     = []string{"sameas", "s==", "contains", "co", "startswith", "sw", "endswith", "ew"}
	ownIntOps     = []string{"==", ">", ">=", "<", "<="}
	ownAllFields  = map[string]bool{"s1": true, "s2": true, "n1": true, "n2": true, "b1": true, "o1": true, "a1": true}
	ownPagingWord = map[string]bool{"orderby": true, "limit": true, "offset": true}
)

func ownCond(r *rand.Rand) *qNode {
	c := &qNode{Kind: "cond", Neg: r.Intn(5) == 0}
	switch r.Intn(10) {
	case 0, 1, 2:
		c.Field, c.Op, c.Val = ownStrFields[r.Intn(2)], ownStrOps[r.Intn(len(ownStrOps))], ownStrVals[r.Intn(len(ownStrVals))]
	case 3, 4, 5:
		c.Field, c.Op, c.Val = ownIntFields[r.Intn(2)], ownIntOps[r.Intn(len(ownIntOps))], strconv.Itoa([]int{-5, 0, 1, 3, 5, 9, 100, 1000}[r.Intn(8)])
	case 6:
		n := 2 + r.Intn(2)
		vs := make([]string, n)
		for i := range vs {
			vs[i] = []string{"x", "0", "true", "a", "ü", "zz", "x|y", "a|b"}[r.Intn(8)]
		}
		c.Field, c.Op, c.Val = ownStrFields[r.Intn(2)], "in", strings.Join(vs, ",")
	case 7:
		c.Field, c.Op, c.Val = "b1", "is", []string{"true", "false", "1", "0", "t", "F"}[r.Intn(6)]
	default:
		c.Field, c.Op = []string{"s1", "s2", "n1", "n2", "b1", "o1", "a1"}[r.Intn(7)], []string{"exists", "ex"}[r.Intn(2)]
	}
	return c
}

// ownTree draws a condition tree; prefix-`not` clauses followed by further clauses are frequent on purpose.
func ownTree(r *rand.Rand, depth int) *qNode {
	n := 1 + r.Intn(3)
	if depth == 0 && r.Intn(3) > 0 {
		n = 2 + r.Intn(3)
	}
	kids := make([]*qNode, n)
	for i := range kids {
		switch x := r.Intn(10); {
		case x < 3: // not in front of a clause
			kids[i] = &qNode{Kind: "not", Kids: []*qNode{ownCond(r)}}
		case x < 4 && depth < 2: // not in front of a group
			kids[i] = &qNode{Kind: "not", Kids: []*qNode{ownTree(r, depth+1)}}
		case x < 6 && depth < 2: // group
			kids[i] = ownTree(r, depth+1)
		default:
			kids[i] = ownCond(r)
		}
	}
	kind := "and"
	if r.Intn(2) == 0 {
		kind = "or"
	}
	return &qNode{Kind: kind, Kids: kids}
}

func ownQuote(v string) string {
	if strings.ContainsAny(v, " |") {
		return `"` + v + `"`
	}
	return v
}

// print: the chain of a group is printed flat; a kid that is itself a chain is parenthesised.
func (n *qNode) print(top bool) string {
	switch n.Kind {
	case "cond":
		s := n.Field
		if n.Neg {
			s += " not"
		}
		s += " " + n.Op
		if n.Op != "exists" && n.Op != "ex" {
			s += " " + ownQuote(n.Val)
		}
		return s
	case "not":
		k := n.Kids[0]
		if k.Kind == "cond" {
			return "not " + k.print(false)
		}
		return "not ( " + k.print(true) + " )"
	default:
		parts := make([]string, len(n.Kids))
		for i, k := range n.Kids {
			if k.Kind == "and" || k.Kind == "or" {
				parts[i] = "( " + k.print(true) + " )"
			} else {
				parts[i] = k.print(false)
			}
		}
		return strings.Join(parts, " "+n.Kind+" ")
	}
}

// ---- reading the printer's output back -------------------------------------------------------------

func ownTokens(s string) ([]string, bool) {
	var out []string
	for i := 0; i < len(s); {
		switch {
		case s[i] == ' ':
			i++
		case s[i] == '"':
			j := strings.IndexByte(s[i+1:], '"')
			if j < 0 {
				return nil, false
			}
			out = append(out, "\x00"+s[i+1:i+1+j]) // marked: a quoted value, never a keyword
			i += j + 2
		default:
			j := i
			for j < len(s) && s[j] != ' ' {
				if s[j] == '"' || s[j] == '\\' {
					return nil, false
				}
				j++
			}
			out = append(out, s[i:j])
			i = j
		}
	}
	return out, true
}

type ownParser struct {
	tok []string
	pos int
	bad bool
}

func (p *ownParser) peek() string {
	if p.pos < len(p.tok) {
		return p.tok[p.pos]
	}
	return ""
}

func (p *ownParser) next() string {
	t := p.peek()
	p.pos++
	return t
}

func (p *ownParser) chain() *qNode {
	var kids []*qNode
	kind := ""
	for {
		k := p.term()
		if p.bad || k == nil {
			p.bad = true
			return nil
		}
		kids = append(kids, k)
		t := p.peek()
		if t != "and" && t != "or" {
			break
		}
		if kind != "" && kind != t {
			p.bad = true
			return nil
		}
		kind = t
		p.next()
	}
	if kind == "" {
		kind = "and"
	}
	return &qNode{Kind: kind, Kids: kids}
}

func (p *ownParser) group() *qNode {
	if p.next() != "(" {
		p.bad = true
		return nil
	}
	n := p.chain()
	if p.next() != ")" {
		p.bad = true
		return nil
	}
	return n
}

func (p *ownParser) term() *qNode {
	switch p.peek() {
	case "(":
		return p.group()
	case "not":
		p.next()
		if p.peek() == "(" {
			g := p.group()
			if g == nil {
				return nil
			}
			return &qNode{Kind: "not", Kids: []*qNode{g}}
		}
		c := p.cond()
		if c == nil {
			return nil
		}
		return &qNode{Kind: "not", Kids: []*qNode{c}}
	}
	return p.cond()
}

func inList(xs []string, x string) bool {
	for _, y := range xs {
		if x == y {
			return true
		}
	}
	return false
}

func (p *ownParser) cond() *qNode {
	c := &qNode{Kind: "cond", Field: p.next()}
	if !ownAllFields[c.Field] {
		p.bad = true
		return nil
	}
	if p.peek() == "not" {
		p.next()
		c.Neg = true
	}
	c.Op = p.next()
	switch {
	case c.Op == "exists" || c.Op == "ex":
		return c
	case inList(ownStrOps, c.Op), c.Op == "in", c.Op == "is", inList(ownIntOps, c.Op):
		v := p.next()
		if v == "" || v == "(" || v == ")" {
			p.bad = true
			return nil
		}
		c.Val = strings.TrimPrefix(v, "\x00")
		if inList(ownIntOps, c.Op) {
			if _, err := strconv.ParseInt(c.Val, 10, 64); err != nil {
				p.bad = true
				return nil
			}
		}
		if c.Op == "is" && !inList([]string{"1", "t", "T", "true", "True", "TRUE", "0", "f", "F", "false", "False", "FALSE"}, c.Val) {
			p.bad = true
			return nil
		}
		if c.Op == "in" && len(strings.Split(c.Val, ",")) < 2 {
			p.bad = true
			return nil
		}
		return c
	}
	p.bad = true
	return nil
}

// ownQuery is a query text the monitor can judge by itself.
type ownQuery struct {
	db, prefix string
	cond       *qNode
	paging     bool // orderby / limit / offset follow: which of the matching records are returned is not judged
}

// parseOwnQuery accepts `query <db>:<prefix> where <printer output> [paging…]` and the plain `query <db>:<prefix>`
// (condition: always true); everything else is not judged.
func parseOwnQuery(text string) *ownQuery {
	if !strings.HasPrefix(text, "query ") {
		return nil
	}
	rest := text[len("query "):]
	i := strings.Index(rest, " where ")
	if i < 0 {
		// no where clause: every record of the database under the prefix is a record of the query
		j := strings.IndexByte(rest, ':')
		if j <= 0 || strings.ContainsAny(rest, " \"\\()\t\n\r") {
			return nil
		}
		return &ownQuery{db: rest[:j], prefix: rest[j+1:], cond: &qNode{Kind: "and"}}
	}
	scope := rest[:i]
	j := strings.IndexByte(scope, ':')
	if j <= 0 || strings.ContainsAny(scope, " \"\\()") {
		return nil
	}
	toks, ok := ownTokens(rest[i+len(" where "):])
	if !ok || len(toks) == 0 {
		return nil
	}
	p := &ownParser{tok: toks}
	n := p.chain()
	if p.bad || n == nil {
		return nil
	}
	q := &ownQuery{db: scope[:j], prefix: scope[j+1:], cond: n}
	if p.pos < len(toks) {
		if !ownPagingWord[toks[p.pos]] {
			return nil
		}
		q.paging = true
	}
	return q
}

// text: the query as the monitor read it (for messages).
func (q *ownQuery) text() string {
	if len(q.cond.Kids) == 0 {
		return "query " + q.db + ":" + q.prefix
	}
	return "query " + q.db + ":" + q.prefix + " where " + q.cond.print(true)
}

// ---- meaning ------------------------------------------------------------------------------------------

// ownObject decodes the JSON content of a record; only objects without duplicate member names are judged
// (which member a reader takes is library business).
func ownObject(body []byte) (map[string]any, bool) {
	dec := json.NewDecoder(bytes.NewReader(body))
	dec.UseNumber()
	t, err := dec.Token()
	if err != nil || t != json.Delim('{') {
		return nil, false
	}
	m := map[string]any{}
	for dec.More() {
		kt, err := dec.Token()
		if err != nil {
			return nil, false
		}
		k, ok := kt.(string)
		if !ok {
			return nil, false
		}
		if _, dup := m[k]; dup {
			return nil, false
		}
		var v any
		if dec.Decode(&v) != nil {
			return nil, false
		}
		m[k] = v
	}
	if t, err := dec.Token(); err != nil || t != json.Delim('}') {
		return nil, false
	}
	if dec.More() {
		return nil, false
	}
	return m, true
}

func (n *qNode) eval(m map[string]any) bool {
	switch n.Kind {
	case "and":
		for _, k := range n.Kids {
			if !k.eval(m) {
				return false
			}
		}
		return true
	case "or":
		for _, k := range n.Kids {
			if k.eval(m) {
				return true
			}
		}
		return false
	case "not":
		return !n.Kids[0].eval(m)
	}
	r := n.evalCond(m)
	if n.Neg {
		return !r
	}
	return r
}

func (n *qNode) evalCond(m map[string]any) bool {
	v, present := m[n.Field]
	switch n.Op {
	case "exists", "ex":
		return present
	case "is":
		b, ok := v.(bool)
		if !present || !ok {
			return false
		}
		want := inList([]string{"1", "t", "T", "true", "True", "TRUE"}, n.Val)
		return b == want
	case "==", ">", ">=", "<", "<=":
		num, ok := v.(json.Number)
		if !present || !ok {
			return false
		}
		var have int64
		if i, err := strconv.ParseInt(string(num), 10, 64); err == nil {
			have = i
		} else if f, err := strconv.ParseFloat(string(num), 64); err == nil && f > -9e15 && f < 9e15 {
			have = int64(f) // the int operators compare the integer part
		} else {
			return false
		}
		want, _ := strconv.ParseInt(n.Val, 10, 64)
		switch n.Op {
		case "==":
			return have == want
		case ">":
			return have > want
		case ">=":
			return have >= want
		case "<":
			return have < want
		}
		return have <= want
	}
	s, ok := v.(string)
	if !present || !ok {
		return false
	}
	switch n.Op {
	case "sameas", "s==":
		return s == n.Val
	case "contains", "co":
		return strings.Contains(s, n.Val)
	case "startswith", "sw":
		return strings.HasPrefix(s, n.Val)
	case "endswith", "ew":
		return strings.HasSuffix(s, n.Val)
	case "in":
		return inList(strings.Split(n.Val, ","), s)
	}
	return false
}
