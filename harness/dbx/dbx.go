// Package dbx is the executor shared by hx-c02 and hx-c03: it runs the op lines of the database line
// protocol (see lean/PB/Model/DbProto.lean) against the REAL portbase database package — all four
// storage backends, shadow / immediate delete, read cache, delayed write cache, subscriptions,
// injected runtime registry and the database API — and renders results canonically.
package dbx

import (
	"context"
	"encoding/json"
	"errors"
	"fmt"
	"math/big"
	"os"
	"path/filepath"
	"sort"
	"strconv"
	"strings"
	"sync"
	"sync/atomic"
	"syscall"
	"time"

	"github.com/safing/portbase/database"
	"github.com/safing/portbase/database/iterator"
	"github.com/safing/portbase/database/query"
	"github.com/safing/portbase/database/record"
	"github.com/safing/portbase/database/storage"
	_ "github.com/safing/portbase/database/storage/badger" // backends under test
	_ "github.com/safing/portbase/database/storage/bbolt"
	_ "github.com/safing/portbase/database/storage/fstree"
	_ "github.com/safing/portbase/database/storage/hashmap"
	"github.com/safing/portbase/formats/dsd"
	"github.com/safing/portbase/log"
)

// Sub is the nested struct of the harness schema.
type Sub struct {
	X int64
}

// Rec is the typed record of the harness schema.
type Rec struct {
	record.Base
	sync.Mutex

	S string
	I int64
	F float64
	B bool
	N Sub
	L []string
}

var (
	initOnce sync.Once
	root     string
	regLock  sync.Mutex
	regDone  = map[string]bool{}
)

// Root returns the scratch directory holding the databases of this process.
func Root() string { return root }

// Setup initialises the process-global database package once. Databases live on tmpfs when available
// (bbolt and badger fsync on every write), otherwise under VERIF_SCRATCH_DIR.
func Setup() {
	initOnce.Do(func() {
		base := os.Getenv("VERIF_SCRATCH_DIR")
		if base == "" {
			base = "/var/tmp"
		}
		// directories left behind by runs that could not clean up (replay exits through os.Exit)
		if old, err := filepath.Glob("/dev/shm/verif-db-*"); err == nil {
			for _, d := range old {
				if st, err := os.Stat(d); err == nil && time.Since(st.ModTime()) > 6*time.Hour {
					_ = os.RemoveAll(d)
				}
			}
		}
		if st, err := os.Stat("/dev/shm"); err == nil && st.IsDir() && os.Getenv("VERIF_NO_SHM") == "" {
			if d, err := os.MkdirTemp("/dev/shm", "verif-db-"); err == nil {
				root = d
			}
		}
		if root == "" {
			d, err := os.MkdirTemp(base, "verif-db-")
			if err != nil {
				panic(err)
			}
			root = d
		}
		quietStderr()
		_ = log.Start()
		log.SetLogLevel(log.CriticalLevel)
		if err := database.InitializeWithPath(root); err != nil {
			panic(err)
		}
	})
}

// quietStderr sends what third-party libraries log to fd 2 (badger) into a file of the run directory;
// os.Stderr itself keeps pointing at the original stream for the harness' own messages.
func quietStderr() {
	dir := os.Getenv("VERIF_SCRATCH_DIR")
	if dir == "" {
		return
	}
	f, err := os.Create(filepath.Join(dir, "library-stderr.log"))
	if err != nil {
		return
	}
	orig, err := syscall.Dup(2)
	if err != nil {
		return
	}
	if err := syscall.Dup3(int(f.Fd()), 2, 0); err != nil {
		return
	}
	os.Stderr = os.NewFile(uintptr(orig), "stderr")
}

// Cleanup removes the scratch directory (the process exits right after; engines are not closed).
func Cleanup() {
	if root != "" {
		_ = os.RemoveAll(root)
	}
}

var backendType = map[string]string{"h": "hashmap", "b": "bbolt", "f": "fstree", "g": "badger"}

// DBName is the database used for a backend / delete-mode combination.
func DBName(backend string, shadow bool) string {
	s := "0"
	if shadow {
		s = "1"
	}
	return "vdb" + backend + s
}

func ensureDB(backend string, shadow bool) (string, error) {
	name := DBName(backend, shadow)
	regLock.Lock()
	defer regLock.Unlock()
	if !regDone[name] {
		_, err := database.Register(&database.Database{Name: name, Description: "verification", StorageType: backendType[backend], ShadowDelete: shadow})
		if err != nil {
			return "", err
		}
		regDone[name] = true
	}
	return name, nil
}

type dumper interface {
	VerifDump() map[string]record.Meta
}
type dumperE interface {
	VerifDump() (map[string]record.Meta, error)
}

func rawDump(st storage.Interface) (map[string]record.Meta, error) {
	switch d := st.(type) {
	case dumper:
		return d.VerifDump(), nil
	case dumperE:
		return d.VerifDump()
	}
	return nil, fmt.Errorf("storage %T has no VerifDump", st)
}

// wipe removes every physically stored record of a database.
func wipe(name, backend string, st storage.Interface) error {
	if backend == "f" {
		dir := filepath.Join(root, "databases", name, "fstree")
		ents, err := os.ReadDir(dir)
		if err != nil {
			return err
		}
		for _, e := range ents {
			if err := os.RemoveAll(filepath.Join(dir, e.Name())); err != nil {
				return err
			}
		}
		return nil
	}
	all, err := rawDump(st)
	if err != nil {
		return err
	}
	for k := range all {
		if err := st.Delete(k); err != nil {
			return err
		}
	}
	return nil
}

// ---------------------------------------------------------------------------------------------

type subState struct {
	sub  *database.Subscription
	seen []string
}

// Exec runs one case.
type Exec struct {
	T0      int64
	backend string
	shadow  bool
	db      string
	ctrl    *database.Controller
	ifs     map[string]*database.Interface
	batch   map[string]func(record.Record) error
	subs    map[string]*subState
	subIDs  []string
	dead    bool
	cfgs    map[string]bool // databases this case has set up (cfg / addcfg)
	ext     func(e *Exec, f []string) (string, bool) // extra ops (C03: api, runtime registry)
	Closers []func()
}

// New returns a fresh executor. ext handles op words dbx does not know.
func New(ext func(e *Exec, f []string) (string, bool)) *Exec {
	Setup()
	return &Exec{T0: time.Now().Unix(), ifs: map[string]*database.Interface{}, batch: map[string]func(record.Record) error{},
		subs: map[string]*subState{}, ext: ext}
}

// UseDB switches the case to another (already registered and loaded) database.
func (e *Exec) UseDB(name string) {
	e.db = name
	if c, err := database.VerifController(name); err == nil {
		e.ctrl = c
	}
}

// DB returns the database name of the case.
func (e *Exec) DB() string { return e.db }

// Iface returns an interface by id.
func (e *Exec) Iface(id string) *database.Interface { return e.ifs[id] }

// Close cancels subscriptions.
func (e *Exec) Close() error {
	for _, s := range e.subs {
		_ = s.sub.Cancel()
	}
	for _, c := range e.Closers {
		c()
	}
	return nil
}

const opTimeout = 60 * time.Second // (20 s was exceeded once at load average 35 on a tree where no put can block)

var hung atomic.Bool

// Hung reports that some operation did not return: generators stop emitting, so that the run ends with the
// hanging case as a concrete violation instead of running into the harness timeout.
func Hung() bool { return hung.Load() }

const maintainPasses = 6

// Do executes one op line under a watchdog.
func (e *Exec) Do(line string) string {
	if e.dead {
		return "skipped-after-hang"
	}
	type res struct {
		s string
		p any
	}
	ch := make(chan res, 1)
	go func() {
		defer func() {
			if x := recover(); x != nil {
				ch <- res{p: x}
			}
		}()
		ch <- res{s: e.do(line)}
	}()
	select {
	case r := <-ch:
		if r.p != nil {
			panic(r.p)
		}
		e.snapshotFeeds()
		return r.s
	case <-time.After(opTimeout):
		e.dead = true
		hung.Store(true)
		return "HANG"
	}
}

// ParseTs resolves a timestamp token against the case's wall-clock base.
func (e *Exec) ParseTs(s string) (int64, bool) {
	switch {
	case s == "@":
		return e.T0, true
	case strings.HasPrefix(s, "@+"):
		n, err := strconv.ParseInt(s[2:], 10, 64)
		return e.T0 + n, err == nil
	case strings.HasPrefix(s, "@-"):
		n, err := strconv.ParseInt(s[2:], 10, 64)
		return e.T0 - n, err == nil
	}
	n, err := strconv.ParseInt(s, 10, 64)
	return n, err == nil
}

func floorDiv(a, b int64) int64 {
	q := a / b
	if (a%b != 0) && ((a < 0) != (b < 0)) {
		q--
	}
	return q
}

// ShowTs renders a timestamp canonically (relative to the case base, rounded to 100 s, when near it).
func (e *Exec) ShowTs(v int64) string {
	if v > e.T0-1000000 && v < e.T0+10000000 {
		d := floorDiv(v-e.T0+50, 100) * 100
		if d < 0 {
			return fmt.Sprintf("@-%d", -d)
		}
		return fmt.Sprintf("@+%d", d)
	}
	return strconv.FormatInt(v, 10)
}

func b01(b bool) string {
	if b {
		return "1"
	}
	return "0"
}

// Keys and query prefixes are opaque strings; in op lines and outputs they are written as tokens in which the
// bytes the line protocol itself uses (space and other bytes <= 0x20, `~`, 0x7f) and the escape character `^`
// appear as `^` + two upper-case hex digits. The encoding is a byte-wise prefix code: a token is a prefix of
// another token iff the key is a prefix of the other key. A lone `-` is the empty prefix.

// EncKey writes a key as a protocol token.
func EncKey(k string) string {
	need := false
	for i := 0; i < len(k); i++ {
		if c := k[i]; c <= 0x20 || c == '~' || c == '^' || c == 0x7f {
			need = true
			break
		}
	}
	if !need {
		return k
	}
	var b strings.Builder
	for i := 0; i < len(k); i++ {
		if c := k[i]; c <= 0x20 || c == '~' || c == '^' || c == 0x7f {
			fmt.Fprintf(&b, "^%02X", c)
		} else {
			b.WriteByte(c)
		}
	}
	return b.String()
}

func hexVal(c byte) int {
	switch {
	case c >= '0' && c <= '9':
		return int(c - '0')
	case c >= 'A' && c <= 'F':
		return int(c-'A') + 10
	}
	return -1
}

// DecKey reads a key token; ok is false for a malformed escape.
func DecKey(tok string) (string, bool) {
	if strings.IndexByte(tok, '^') < 0 {
		return tok, true
	}
	var b strings.Builder
	for i := 0; i < len(tok); i++ {
		if tok[i] != '^' {
			b.WriteByte(tok[i])
			continue
		}
		if i+2 >= len(tok) || hexVal(tok[i+1]) < 0 || hexVal(tok[i+2]) < 0 {
			return "", false
		}
		b.WriteByte(byte(hexVal(tok[i+1])<<4 | hexVal(tok[i+2])))
		i += 2
	}
	return b.String(), true
}

// ShowMeta renders metadata canonically; the flags are read through CheckPermission.
func (e *Exec) ShowMeta(m *record.Meta) string {
	if m == nil {
		return "nil-meta"
	}
	secret := !m.CheckPermission(true, false)
	crown := !m.CheckPermission(false, true)
	return fmt.Sprintf("%s,%s,%s,%s,%s,%s", e.ShowTs(m.Created), e.ShowTs(m.Modified), e.ShowTs(m.Expires), e.ShowTs(m.Deleted), b01(secret), b01(crown))
}

func (e *Exec) parseMeta(s string) (*record.Meta, bool) {
	p := strings.Split(s, ",")
	if len(p) != 6 {
		return nil, false
	}
	var v [4]int64
	for i := 0; i < 4; i++ {
		x, ok := e.ParseTs(p[i])
		if !ok {
			return nil, false
		}
		v[i] = x
	}
	m := &record.Meta{Created: v[0], Modified: v[1], Expires: v[2], Deleted: v[3]}
	if p[4] == "1" {
		m.MakeSecret()
	} else if p[4] != "0" {
		return nil, false
	}
	if p[5] == "1" {
		m.MakeCrownJewel()
	} else if p[5] != "0" {
		return nil, false
	}
	return m, true
}

type field struct {
	name string
	val  string // token after '='
}

func parseFields(s string) ([]field, bool) {
	if s == "-" {
		return nil, true
	}
	var out []field
	for _, p := range strings.Split(s, ";") {
		i := strings.IndexByte(p, '=')
		if i < 0 {
			return nil, false
		}
		out = append(out, field{p[:i], p[i+1:]})
	}
	return out, true
}

// Numbers travel through the line protocol as exact decimals in thousandths, with any number of digits (int64
// fields and operands over the whole int64 range; floats that hold 2^53, 2^62, 2^63 …). big.Int / big.Rat keep the
// harness's own arithmetic exact; what the implementation is handed is a Go int64 / the nearest float64.

var big1000 = big.NewInt(1000)

// MilliTok parses a thousandths token.
func MilliTok(tok string) (*big.Int, bool) {
	if tok == "" || tok == "-" || tok == "+" {
		return nil, false
	}
	for i, c := range tok {
		if !(c >= '0' && c <= '9') && !(i == 0 && (c == '-' || c == '+')) {
			return nil, false
		}
	}
	return new(big.Int).SetString(tok, 10)
}

// MilliFloat is the float64 nearest to m/1000 (what strconv.ParseFloat makes of the decimal; for |m| < 2^53 the
// same as float64(m) / 1000).
func MilliFloat(m *big.Int) float64 {
	f, _ := new(big.Rat).SetFrac(m, big1000).Float64()
	return f
}

// FloatMilli is the exact value of f in thousandths, rounded half away from zero.
func FloatMilli(f float64) *big.Int {
	r := new(big.Rat).SetFloat64(f)
	if r == nil {
		return big.NewInt(0)
	}
	return ratMilli(r)
}

func ratMilli(r *big.Rat) *big.Int {
	r = new(big.Rat).Mul(r, new(big.Rat).SetInt(big1000))
	// round half away from zero: floor(|r| + 1/2) with the sign of r
	neg := r.Sign() < 0
	a := new(big.Rat).Abs(r)
	a.Add(a, big.NewRat(1, 2))
	q := new(big.Int).Quo(a.Num(), a.Denom())
	if neg {
		q.Neg(q)
	}
	return q
}

// DecimalMilli is the exact value of a JSON number text in thousandths (rounded half away from zero).
func DecimalMilli(text string) (*big.Int, bool) {
	r, ok := new(big.Rat).SetString(text)
	if !ok {
		return nil, false
	}
	return ratMilli(r), true
}

// IntMilli is n * 1000.
func IntMilli(n int64) *big.Int { return new(big.Int).Mul(big.NewInt(n), big1000) }

// fieldFloatOK: a float FIELD value of large magnitude must be a float64 that encoding/json writes with its own
// digits (see TextExact in gen.go): the model does not compute shortest round-trip decimals. Small decimals (the
// thousandths the protocol always had) pass.
func fieldFloatOK(m *big.Int) bool {
	if new(big.Int).Abs(m).Cmp(big.NewInt(1000000000000000)) < 0 {
		return true
	}
	return TextExact(m)
}

func milliJSON(m *big.Int) string { return strconv.FormatFloat(MilliFloat(m), 'f', -1, 64) }

// primJSON renders a prim token (s:/i:/f:/b:) as JSON.
func primJSON(tok string) (string, bool) {
	if len(tok) < 2 || tok[1] != ':' {
		return "", false
	}
	v := tok[2:]
	switch tok[0] {
	case 's':
		b, _ := json.Marshal(v)
		return string(b), true
	case 'i':
		if _, err := strconv.ParseInt(v, 10, 64); err != nil {
			return "", false
		}
		return v, true
	case 'f':
		m, ok := MilliTok(v)
		if !ok || !fieldFloatOK(m) {
			return "", false
		}
		return milliJSON(m), true
	case 'b':
		if v == "1" {
			return "true", true
		} else if v == "0" {
			return "false", true
		}
	}
	return "", false
}

func valJSON(tok string) (string, bool) {
	switch {
	case strings.HasPrefix(tok, "o{") && strings.HasSuffix(tok, "}"):
		body := tok[2 : len(tok)-1]
		if body == "" {
			return "{}", true
		}
		var parts []string
		for _, p := range strings.Split(body, "+") {
			i := strings.IndexByte(p, '=')
			if i < 0 {
				return "", false
			}
			j, ok := primJSON(p[i+1:])
			if !ok {
				return "", false
			}
			n, _ := json.Marshal(p[:i])
			parts = append(parts, string(n)+":"+j)
		}
		return "{" + strings.Join(parts, ",") + "}", true
	case strings.HasPrefix(tok, "a[") && strings.HasSuffix(tok, "]"):
		body := tok[2 : len(tok)-1]
		if body == "" {
			return "[]", true
		}
		var parts []string
		for _, p := range strings.Split(body, ",") {
			b, _ := json.Marshal(p)
			parts = append(parts, string(b))
		}
		return "[" + strings.Join(parts, ",") + "]", true
	}
	return primJSON(tok)
}

// BuildRecord makes the record object for `<key> <T|J|R> <meta> <payload>`.
func (e *Exec) BuildRecord(db, key, form, meta, payload string) (record.Record, bool) {
	m, ok := e.parseMeta(meta)
	if !ok {
		return nil, false
	}
	full := db + ":" + key
	switch form {
	case "T":
		fs, ok := parseFields(payload)
		if !ok {
			return nil, false
		}
		r := &Rec{L: []string{}}
		for _, f := range fs {
			if len(f.val) < 2 {
				return nil, false
			}
			v := f.val[2:]
			switch f.name {
			case "S":
				if f.val[:2] != "s:" {
					return nil, false
				}
				r.S = v
			case "I":
				n, err := strconv.ParseInt(v, 10, 64)
				if f.val[:2] != "i:" || err != nil {
					return nil, false
				}
				r.I = n
			case "F":
				n, ok := MilliTok(v)
				if f.val[:2] != "f:" || !ok || !fieldFloatOK(n) {
					return nil, false
				}
				r.F = MilliFloat(n)
			case "B":
				if f.val != "b:0" && f.val != "b:1" {
					return nil, false
				}
				r.B = v == "1"
			case "N":
				if !strings.HasPrefix(f.val, "o{X=i:") || !strings.HasSuffix(f.val, "}") {
					return nil, false
				}
				n, err := strconv.ParseInt(f.val[6:len(f.val)-1], 10, 64)
				if err != nil {
					return nil, false
				}
				r.N.X = n
			case "L":
				if !strings.HasPrefix(f.val, "a[") || !strings.HasSuffix(f.val, "]") {
					return nil, false
				}
				if body := f.val[2 : len(f.val)-1]; body != "" {
					r.L = strings.Split(body, ",")
				}
			default:
				return nil, false
			}
		}
		r.SetKey(full)
		r.SetMeta(m)
		return r, true
	case "J":
		fs, ok := parseFields(payload)
		if !ok {
			return nil, false
		}
		var parts []string
		for _, f := range fs {
			j, ok := valJSON(f.val)
			if !ok {
				return nil, false
			}
			n, _ := json.Marshal(f.name)
			parts = append(parts, string(n)+":"+j)
		}
		data := []byte("{" + strings.Join(parts, ",") + "}")
		if len(fs) == 0 {
			data = []byte{}
		}
		w, err := record.NewWrapper(full, m, dsd.JSON, data)
		return w, err == nil
	case "R":
		data := []byte(payload)
		if payload == "-" {
			data = []byte{}
		}
		w, err := record.NewWrapper(full, m, dsd.RAW, data)
		return w, err == nil
	}
	return nil, false
}

func showNum(f float64) string { return "n:" + FloatMilli(f).String() }

func showJSONPrim(v any) (string, bool) {
	switch x := v.(type) {
	case string:
		return "s:" + x, true
	case json.Number:
		// the number as it is written (a 19-digit integer literal is not a float64)
		m, ok := DecimalMilli(x.String())
		if !ok {
			return "", false
		}
		return "n:" + m.String(), true
	case bool:
		return "b:" + b01(x), true
	}
	return "", false
}

// ShowPayload renders the data of a record canonically (numbers as thousandths, fields sorted by name).
func ShowPayload(r record.Record) string {
	switch x := r.(type) {
	case *Rec:
		l := "a[" + strings.Join(x.L, ",") + "]"
		return fmt.Sprintf("B=b:%s;F=%s;I=n:%s;L=%s;N=o{X=n:%s};S=s:%s", b01(x.B), showNum(x.F), IntMilli(x.I), l, IntMilli(x.N.X), x.S)
	case *record.Wrapper:
		if x.Format != dsd.JSON {
			if len(x.Data) == 0 {
				return "-"
			}
			return string(x.Data)
		}
		if len(x.Data) == 0 {
			return "-"
		}
		dec := json.NewDecoder(strings.NewReader(string(x.Data)))
		dec.UseNumber()
		var m map[string]any
		if err := dec.Decode(&m); err != nil {
			return "unparsable-json:" + strconv.Quote(string(x.Data))
		}
		names := make([]string, 0, len(m))
		for n := range m {
			names = append(names, n)
		}
		sort.Strings(names)
		var parts []string
		for _, n := range names {
			switch v := m[n].(type) {
			case map[string]any:
				sub := make([]string, 0, len(v))
				for sn := range v {
					sub = append(sub, sn)
				}
				sort.Strings(sub)
				var sp []string
				for _, sn := range sub {
					p, ok := showJSONPrim(v[sn])
					if !ok {
						p = "?"
					}
					sp = append(sp, sn+"="+p)
				}
				parts = append(parts, n+"=o{"+strings.Join(sp, "+")+"}")
			case []any:
				var sp []string
				for _, el := range v {
					s, _ := el.(string)
					sp = append(sp, s)
				}
				parts = append(parts, n+"=a["+strings.Join(sp, ",")+"]")
			default:
				p, ok := showJSONPrim(v)
				if !ok {
					p = "?"
				}
				parts = append(parts, n+"="+p)
			}
		}
		if len(parts) == 0 {
			return "-"
		}
		return strings.Join(parts, ";")
	}
	return fmt.Sprintf("unknown-record-type:%T", r)
}

// ShowRec renders key~meta~payload.
func (e *Exec) ShowRec(r record.Record) string {
	r.Lock()
	defer r.Unlock()
	return EncKey(r.DatabaseKey()) + "~" + e.ShowMeta(r.Meta()) + "~" + ShowPayload(r)
}

// ShowRecUnlocked renders key~meta~payload without taking the record's lock (for code that is called while the
// caller holds it, such as a value provider's Set).
func (e *Exec) ShowRecUnlocked(r record.Record) string {
	return EncKey(r.DatabaseKey()) + "~" + e.ShowMeta(r.Meta()) + "~" + ShowPayload(r)
}

// CopyRecord returns an independent copy of a harness record (typed struct or wrapper); the caller must make
// sure nobody writes to r meanwhile.
func CopyRecord(r record.Record) record.Record {
	var m *record.Meta
	if r.Meta() != nil {
		m = r.Meta().Duplicate()
	}
	switch x := r.(type) {
	case *Rec:
		c := &Rec{S: x.S, I: x.I, F: x.F, B: x.B, N: x.N, L: append([]string{}, x.L...)}
		c.SetKey(x.Key())
		c.SetMeta(m)
		return c
	case *record.Wrapper:
		w, err := record.NewWrapper(x.Key(), m, x.Format, append([]byte{}, x.Data...))
		if err != nil {
			panic(err)
		}
		return w
	}
	panic(fmt.Sprintf("CopyRecord: unknown record type %T", r))
}

// ErrStr maps errors to the protocol's error enum.
func ErrStr(err error) string {
	switch {
	case err == nil:
		return "ok"
	case errors.Is(err, database.ErrNotFound):
		return "notfound"
	case errors.Is(err, database.ErrPermissionDenied):
		return "denied"
	case errors.Is(err, database.ErrNotImplemented), errors.Is(err, storage.ErrNotImplemented):
		return "notimpl"
	case errors.Is(err, database.ErrReadOnly):
		return "readonly"
	case strings.Contains(err.Error(), "failed to set value"):
		return "setfailed"
	case strings.Contains(err.Error(), "out of database scope"):
		return "outofscope"
	case strings.Contains(err.Error(), "fstree: key integrity check failed"), strings.Contains(err.Error(), "fstree: key is not a clean path"):
		// the file-tree backend refuses keys that are not clean relative paths (see notes/c02.md)
		return "badkey"
	}
	msg := err.Error()
	if root != "" {
		msg = strings.ReplaceAll(msg, root, "<root>")
	}
	msg = strings.Join(strings.Fields(msg), "_")
	if len(msg) > 120 {
		msg = msg[:120]
	}
	return "err:" + msg
}

// ---- conditions ---------------------------------------------------------------------------------

var opIDs = map[string]uint8{"eq": query.Equals, "gt": query.GreaterThan, "ge": query.GreaterThanOrEqual, "lt": query.LessThan, "le": query.LessThanOrEqual,
	"feq": query.FloatEquals, "fgt": query.FloatGreaterThan, "fge": query.FloatGreaterThanOrEqual, "flt": query.FloatLessThan, "fle": query.FloatLessThanOrEqual,
	"sa": query.SameAs, "co": query.Contains, "sw": query.StartsWith, "ew": query.EndsWith, "in": query.In, "re": query.Matches, "is": query.Is, "ex": query.Exists}

// ParseCond builds a query condition from the protocol token. `-` ⇒ nil.
func ParseCond(tok string) (query.Condition, bool) {
	if tok == "-" {
		return nil, true
	}
	c, rest, ok := parseCond(tok)
	if !ok || rest != "" {
		return nil, false
	}
	return c, true
}

func parseArgs(s string) ([]query.Condition, string, bool) {
	var out []query.Condition
	for {
		if s == "" {
			return nil, "", false
		}
		if s[0] == ')' {
			return out, s[1:], true
		}
		if s[0] == ',' {
			s = s[1:]
		}
		c, rest, ok := parseCond(s)
		if !ok {
			return nil, "", false
		}
		out = append(out, c)
		s = rest
	}
}

func parseCond(s string) (query.Condition, string, bool) {
	if s == "" {
		return nil, "", false
	}
	switch {
	case s[0] == 'T':
		return query.And(), s[1:], true
	case s[0] == 'F':
		return query.Or(), s[1:], true
	case s[0] == 'E':
		rest := s[1:]
		variant := 0
		for rest != "" && rest[0] >= '0' && rest[0] <= '9' {
			variant = variant*10 + int(rest[0]-'0')
			rest = rest[1:]
		}
		switch variant % 5 {
		case 0:
			return query.Where("I", 200, nil), rest, true // unknown operator
		case 1:
			return query.Where("I", query.Equals, "not-a-number"), rest, true
		case 2:
			return query.Where("F", query.FloatEquals, []string{"x"}), rest, true
		case 3:
			return query.Where("S", query.Matches, "(unclosed"), rest, true
		default:
			return query.Where("B", query.Is, "maybe"), rest, true
		}
	case s[0] == '!':
		c, rest, ok := parseCond(s[1:])
		if !ok {
			return nil, "", false
		}
		return query.Not(c), rest, true
	case strings.HasPrefix(s, "&("):
		cs, rest, ok := parseArgs(s[2:])
		if !ok {
			return nil, "", false
		}
		return query.And(cs...), rest, true
	case strings.HasPrefix(s, "|("):
		cs, rest, ok := parseArgs(s[2:])
		if !ok {
			return nil, "", false
		}
		return query.Or(cs...), rest, true
	case s[0] == '[':
		end := strings.IndexByte(s, ']')
		if end < 0 {
			return nil, "", false
		}
		p := strings.Split(s[1:end], ":")
		if len(p) != 3 {
			return nil, "", false
		}
		id, ok := opIDs[p[1]]
		if !ok {
			return nil, "", false
		}
		var val any
		switch p[1] {
		case "eq", "gt", "ge", "lt", "le":
			n, err := strconv.ParseInt(p[2], 10, 64)
			if err != nil {
				return nil, "", false
			}
			if n%2 == 0 {
				val = n
			} else {
				val = strconv.FormatInt(n, 10) // the string form the query parser produces
			}
		case "feq", "fgt", "fge", "flt", "fle":
			n, ok := MilliTok(p[2])
			if !ok {
				return nil, "", false
			}
			switch new(big.Int).Mod(new(big.Int).Quo(new(big.Int).Abs(n), big1000), big.NewInt(3)).Int64() {
			case 0:
				val = MilliFloat(n) // a float64
			case 1:
				val = milliJSON(n) // the string form the query parser produces (shortest float64 text)
			default:
				// the decimal as the user writes it: newFloatCondition parses it with strconv.ParseFloat
				val = new(big.Rat).SetFrac(n, big1000).FloatString(3)
			}
		case "sa", "co", "sw", "ew":
			val = p[2]
		case "in":
			l := strings.Split(p[2], ";")
			if len(l) >= 2 && len(p[2])%2 == 0 {
				val = strings.Join(l, ",")
			} else {
				val = l
			}
		case "re":
			if len(p[2]) < 2 {
				return nil, "", false
			}
			re := regexpQuote(p[2][2:])
			if p[2][0] == '1' {
				re = "^" + re
			}
			if p[2][1] == '1' {
				re += "$"
			}
			val = re
		case "is":
			if p[2] == "1" {
				val = true
			} else if p[2] == "0" {
				val = "false"
			} else {
				return nil, "", false
			}
		case "ex":
			val = nil
		}
		return query.Where(p[0], id, val), s[end+1:], true
	}
	return nil, "", false
}

func regexpQuote(s string) string {
	var b strings.Builder
	for _, c := range s {
		if strings.ContainsRune(`\.+*?()|[]{}^$`, c) {
			b.WriteByte('\\')
		}
		b.WriteRune(c)
	}
	return b.String()
}

// BuildQuery makes the query for `<prefix|-> <cond>`.
func (e *Exec) BuildQuery(db, pfx, cond string) (*query.Query, bool) {
	c, ok := ParseCond(cond)
	if !ok {
		return nil, false
	}
	if pfx == "-" {
		pfx = ""
	}
	q := query.New(db + ":" + pfx)
	if c != nil {
		q = q.Where(c)
	}
	return q, true
}

// Drain reads an iterator to its end and returns the canonical records (sorted) and the terminal error.
func (e *Exec) Drain(it *iterator.Iterator) ([]string, error) {
	var out []string
	for r := range it.Next {
		out = append(out, e.ShowRec(r))
	}
	sortByKey(out)
	return out, it.Err()
}

// sortByKey orders `key~…` tokens by key (byte order), as the model driver does.
func sortByKey(l []string) {
	key := func(s string) string {
		if i := strings.IndexByte(s, '~'); i >= 0 {
			s = s[:i]
		}
		if k, ok := DecKey(s); ok {
			return k
		}
		return s
	}
	sort.SliceStable(l, func(a, b int) bool { return key(l[a]) < key(l[b]) })
}

func showList(l []string) string {
	if len(l) == 0 {
		return "ok 0"
	}
	return fmt.Sprintf("ok %d %s", len(l), strings.Join(l, " "))
}

func (e *Exec) snapshotFeeds() {
	for _, id := range e.subIDs {
		s := e.subs[id]
	drain:
		for {
			select {
			case r, ok := <-s.sub.Feed:
				if !ok {
					break drain
				}
				s.seen = append(s.seen, e.ShowRec(r))
			default:
				break drain
			}
		}
	}
}

func (e *Exec) do(line string) string {
	f := strings.Fields(line)
	if len(f) == 0 {
		return "bad-op"
	}
	if f[0] == "cfg" || f[0] == "addcfg" || f[0] == "usecfg" {
		// cfg: the case's database (wiped). addcfg: a further database of the same case (wiped; the others keep
		// their content). usecfg: switch to a database of this case without touching its content.
		if len(f) != 3 || backendType[f[1]] == "" || (f[2] != "0" && f[2] != "1") {
			return "bad-op"
		}
		if f[0] == "usecfg" && !e.cfgs[f[1]+f[2]] {
			return "bad-op"
		}
		e.backend, e.shadow = f[1], f[2] == "1"
		name, err := ensureDB(e.backend, e.shadow)
		if err != nil {
			return ErrStr(err)
		}
		e.db = name
		c, err := database.VerifController(name)
		if err != nil {
			return ErrStr(err)
		}
		e.ctrl = c
		if f[0] != "usecfg" {
			if err := wipe(name, e.backend, c.VerifStorage()); err != nil {
				return "wipe-failed:" + ErrStr(err)
			}
		}
		if e.cfgs == nil {
			e.cfgs = map[string]bool{}
		}
		e.cfgs[f[1]+f[2]] = true
		return "ok"
	}
	switch f[0] {
	case "waitsec":
		// waitsec <n>: block until the wall clock shows second T0+n (the clock is polled; the op returns within
		// about a millisecond of the second's start). "late" if that second is already over.
		if len(f) != 2 {
			return "bad-op"
		}
		n, err := strconv.ParseInt(f[1], 10, 64)
		if err != nil || n < 0 || n > 5 {
			return "bad-op"
		}
		for time.Now().Unix() < e.T0+n {
			time.Sleep(200 * time.Microsecond)
		}
		if time.Now().Unix() > e.T0+n {
			return "late"
		}
		return "ok"
	case "clock":
		// clock: the wall clock's second relative to the case start, exact
		if len(f) != 1 {
			return "bad-op"
		}
		return fmt.Sprintf("@+%d", time.Now().Unix()-e.T0)
	}
	if e.ext != nil {
		if out, ok := e.ext(e, f); ok {
			return out
		}
	}
	if e.ctrl == nil {
		return "bad-op"
	}
	needIf := func(n int) *database.Interface {
		if len(f) != n {
			return nil
		}
		return e.ifs[f[1]]
	}
	// key / key-prefix tokens (see EncKey)
	kpos := 0
	switch f[0] {
	case "get", "exists", "put", "putnew", "del", "reput", "setabs", "setrel", "mksecret", "mkcrown", "insert", "pmput", "query", "purge":
		kpos = 2
	case "sub":
		kpos = 3
	}
	if kpos > 0 && len(f) > kpos {
		k, ok := DecKey(f[kpos])
		if !ok {
			return "bad-op"
		}
		f[kpos] = k
	}
	switch f[0] {
	case "if":
		if len(f) != 9 {
			return "bad-op"
		}
		o := &database.Options{Local: f[2] == "1", Internal: f[3] == "1", AlwaysMakeSecret: f[5] == "1", AlwaysMakeCrownjewel: f[6] == "1"}
		switch f[4] {
		case "n":
		case "r":
			o.CacheSize = 256
		case "s":
			o.CacheSize = 2
		case "d":
			o.CacheSize = 256
			o.DelayCachedWrites = e.db
		case "e":
			o.CacheSize = 2
			o.DelayCachedWrites = e.db
		default:
			return "bad-op"
		}
		rel, err := strconv.ParseInt(f[7], 10, 64)
		abs, ok := e.ParseTs(f[8])
		if err != nil || !ok {
			return "bad-op"
		}
		o.AlwaysSetRelativateExpiry, o.AlwaysSetAbsoluteExpiry = rel, abs
		e.ifs[f[1]] = database.NewInterface(o)
		return "ok"
	case "get":
		i := needIf(3)
		if i == nil {
			return "bad-op"
		}
		r, err := i.Get(e.db + ":" + f[2])
		if err != nil {
			return ErrStr(err)
		}
		return "ok " + e.ShowRec(r)
	case "exists":
		i := needIf(3)
		if i == nil {
			return "bad-op"
		}
		ok, err := i.Exists(e.db + ":" + f[2])
		if err != nil {
			return ErrStr(err)
		}
		return strconv.FormatBool(ok)
	case "put", "putnew":
		i := needIf(6)
		if i == nil {
			return "bad-op"
		}
		r, ok := e.BuildRecord(e.db, f[2], f[3], f[4], f[5])
		if !ok {
			return "bad-op"
		}
		if f[0] == "put" {
			return ErrStr(i.Put(r))
		}
		return ErrStr(i.PutNew(r))
	case "del":
		i := needIf(3)
		if i == nil {
			return "bad-op"
		}
		return ErrStr(i.Delete(e.db + ":" + f[2]))
	case "reput":
		// get a record and put the very object back (the usual read-modify-write without the modify):
		// a record object with history — metadata, cache membership, storage representation
		i := needIf(3)
		if i == nil {
			return "bad-op"
		}
		r, err := i.Get(e.db + ":" + f[2])
		if err != nil {
			return ErrStr(err)
		}
		return ErrStr(i.Put(r))
	case "setabs":
		i := needIf(4)
		t, ok := e.ParseTs(f[len(f)-1])
		if i == nil || !ok {
			return "bad-op"
		}
		return ErrStr(i.SetAbsoluteExpiry(e.db+":"+f[2], t))
	case "setrel":
		i := needIf(4)
		if i == nil {
			return "bad-op"
		}
		d, err := strconv.ParseInt(f[3], 10, 64)
		if err != nil {
			return "bad-op"
		}
		return ErrStr(i.SetRelativateExpiry(e.db+":"+f[2], d))
	case "mksecret":
		i := needIf(3)
		if i == nil {
			return "bad-op"
		}
		return ErrStr(i.MakeSecret(e.db + ":" + f[2]))
	case "mkcrown":
		i := needIf(3)
		if i == nil {
			return "bad-op"
		}
		return ErrStr(i.MakeCrownJewel(e.db + ":" + f[2]))
	case "insert":
		i := needIf(5)
		if i == nil || len(f[4]) < 2 || f[4][1] != ':' {
			return "bad-op"
		}
		var val any
		v := f[4][2:]
		switch f[4][0] {
		case 's':
			val = v
		case 'i':
			n, err := strconv.ParseInt(v, 10, 64)
			if err != nil {
				return "bad-op"
			}
			val = n
		case 'f':
			n, ok := MilliTok(v)
			if !ok {
				return "bad-op"
			}
			val = MilliFloat(n)
		case 'b':
			if v != "0" && v != "1" {
				return "bad-op"
			}
			val = v == "1"
		default:
			return "bad-op"
		}
		return ErrStr(i.InsertValue(e.db+":"+f[2], f[3], val))
	case "pmbegin":
		i := needIf(2)
		if i == nil {
			return "bad-op"
		}
		e.batch[f[1]] = i.PutMany(e.db)
		return "ok"
	case "pmput":
		if len(f) != 6 || e.batch[f[1]] == nil {
			return "bad-op"
		}
		r, ok := e.BuildRecord(e.db, f[2], f[3], f[4], f[5])
		if !ok {
			return "bad-op"
		}
		return ErrStr(e.batch[f[1]](r))
	case "pmputx":
		if len(f) != 2 || e.batch[f[1]] == nil {
			return "bad-op"
		}
		r, _ := e.BuildRecord("otherdb", "k", "J", "0,0,0,0,0,0", "S=s:x")
		return ErrStr(e.batch[f[1]](r))
	case "pmend":
		if len(f) != 2 || e.batch[f[1]] == nil {
			return "bad-op"
		}
		err := e.batch[f[1]](nil)
		delete(e.batch, f[1])
		return ErrStr(err)
	case "query":
		i := needIf(4)
		if i == nil {
			return "bad-op"
		}
		q, ok := e.BuildQuery(e.db, f[2], f[3])
		if !ok {
			return "bad-op"
		}
		it, err := i.Query(q)
		if err != nil {
			if strings.HasPrefix(ErrStr(err), "err:") {
				return "badquery"
			}
			return ErrStr(err)
		}
		l, ierr := e.Drain(it)
		es := "nil"
		if ierr != nil {
			es = ErrStr(ierr)
		}
		return showList(l) + " err=" + es
	case "purge":
		i := needIf(4)
		if i == nil {
			return "bad-op"
		}
		q, ok := e.BuildQuery(e.db, f[2], f[3])
		if !ok {
			return "bad-op"
		}
		n, err := i.Purge(context.Background(), q)
		if err != nil {
			if strings.HasPrefix(ErrStr(err), "err:") && n == 0 {
				if _, cerr := q.Check(); cerr != nil {
					return "badquery"
				}
			}
			return ErrStr(err)
		}
		return fmt.Sprintf("ok %d", n)
	case "maintain":
		if len(f) != 2 {
			return "bad-op"
		}
		t, ok := e.ParseTs(f[1])
		if !ok {
			return "bad-op"
		}
		// Run to a fixed point: within one bbolt transaction that has already rewritten a record, a cursor
		// delete makes the following Next skip a record, so one pass may leave dead records behind
		// (which the property allows); the model's pass is complete, six passes on both sides agree.
		for k := 0; k < maintainPasses; k++ {
			if err := e.ctrl.MaintainRecordStates(context.Background(), time.Unix(t, 0)); err != nil {
				return ErrStr(err)
			}
		}
		return "ok"
	case "gmaintain":
		for k := 0; k < maintainPasses; k++ {
			if err := database.MaintainRecordStates(context.Background()); err != nil {
				return ErrStr(err)
			}
		}
		if err := database.Maintain(context.Background()); err != nil {
			return ErrStr(err)
		}
		return ErrStr(database.MaintainThorough(context.Background()))
	case "dump":
		all, err := rawDump(e.ctrl.VerifStorage())
		if err != nil {
			return ErrStr(err)
		}
		var l []string
		for k, m := range all {
			if m.Deleted > e.T0-1000 && m.Deleted < e.T0+1000 {
				continue // deleted "now": see dumpVisible in the model
			}
			m := m
			l = append(l, EncKey(k)+"~"+e.ShowMeta(&m))
		}
		sortByKey(l)
		return showList(l)
	case "iter":
		// iter <n> <err 0|1> <forced 0|1>: the real Iterator; a producer sends n records and calls Finish(err),
		// the consumer drains Next to its end and then reads Err(). forced: the producer is held at the
		// verif yield point inside Finish for 20 ms.
		if len(f) != 4 {
			return "bad-op"
		}
		n, err := strconv.Atoi(f[1])
		if err != nil || n < 0 || n > 1000 {
			return "bad-op"
		}
		var ferr error
		if f[2] == "1" {
			ferr = errors.New("E")
		}
		if f[3] == "1" {
			iterator.VerifSetSink(func(point string, _ ...any) {
				if point == "yield:iterator.Finish" {
					time.Sleep(20 * time.Millisecond)
				}
			})
			defer iterator.VerifSetSink(nil)
		}
		it := iterator.New()
		go func() {
			for k := 0; k < n; k++ {
				r, _ := e.BuildRecord(e.db, fmt.Sprintf("k%d", k), "J", "0,0,0,0,0,0", "S=s:x")
				it.Next <- r
			}
			it.Finish(ferr)
		}()
		cnt := 0
		for range it.Next {
			cnt++
		}
		es := "nil"
		if got := it.Err(); got != nil {
			es = got.Error()
		}
		return fmt.Sprintf("ok %d err=%s", cnt, es)
	case "slowquery":
		// slowquery <if> <forced>: query everything, do not read for 1.2 s (the backend's send times out
		// once the 10-record buffer is full), then drain and read Err().
		i := needIf(3)
		if i == nil {
			return "bad-op"
		}
		if f[2] == "1" {
			iterator.VerifSetSink(func(point string, _ ...any) {
				if point == "yield:iterator.Finish" {
					time.Sleep(20 * time.Millisecond)
				}
			})
			defer iterator.VerifSetSink(nil)
		}
		it, err := i.Query(query.New(e.db + ":"))
		if err != nil {
			return ErrStr(err)
		}
		time.Sleep(1200 * time.Millisecond)
		l, ierr := e.Drain(it)
		es := "nil"
		if ierr != nil {
			es = "error"
		}
		return fmt.Sprintf("ok %d err=%s", len(l), es)
	case "pq":
		// pq <A> <prefix> <P> <mksecret|mkcrown|mkboth|del|expire> <k1,k2,…>: a query by interface A whose consumer does
		// not read (the storage's executor runs until the result buffer is full and it is parked in its hand-over),
		// then interface P re-flags (deletes, sets an expiry in the past on) the listed records and returns, then the
		// consumer reads the stream to its end.
		// Answers the buffer capacity, whether the buffer was full when the re-flag began, the result of the
		// re-flag, and the records IN ORDER OF ARRIVAL, each rendered when it is received.
		if len(f) != 6 || e.ifs[f[1]] == nil || e.ifs[f[3]] == nil {
			return "bad-op"
		}
		pfx, ok := DecKey(f[2])
		if !ok || (f[4] != "mksecret" && f[4] != "mkcrown" && f[4] != "mkboth" && f[4] != "del" && f[4] != "expire") {
			return "bad-op"
		}
		var keys []string
		for _, t := range strings.Split(f[5], ",") {
			k, ok := DecKey(t)
			if !ok {
				return "bad-op"
			}
			keys = append(keys, k)
		}
		q, ok := e.BuildQuery(e.db, pfx, "-")
		if !ok {
			return "bad-op"
		}
		it, err := e.ifs[f[1]].Query(q)
		if err != nil {
			return ErrStr(err)
		}
		capN := cap(it.Next)
		parked := 0
	wait:
		for t0 := time.Now(); time.Since(t0) < 300*time.Millisecond; time.Sleep(100 * time.Microsecond) {
			if len(it.Next) == capN {
				parked = 1
				break
			}
			select {
			case <-it.Done: // the executor has finished: fewer records than the buffer holds
				break wait
			default:
			}
		}
		reflag := "ok"
		p := e.ifs[f[3]]
		for _, k := range keys {
			var errs []error
			switch f[4] {
			case "del":
				errs = append(errs, p.Delete(e.db+":"+k))
			case "expire":
				errs = append(errs, p.SetAbsoluteExpiry(e.db+":"+k, 5))
			default:
				if f[4] != "mkcrown" {
					errs = append(errs, p.MakeSecret(e.db+":"+k))
				}
				if f[4] != "mksecret" {
					errs = append(errs, p.MakeCrownJewel(e.db+":"+k))
				}
			}
			for _, err := range errs {
				if err != nil && reflag == "ok" {
					reflag = ErrStr(err)
				}
			}
		}
		var got []string
		for r := range it.Next {
			got = append(got, e.ShowRec(r))
		}
		es := "nil"
		if ierr := it.Err(); ierr != nil {
			es = "error"
		}
		out := fmt.Sprintf("ok cap=%d parked=%d reflag=%s n=%d", capN, parked, reflag, len(got))
		if len(got) > 0 {
			out += " " + strings.Join(got, " ")
		}
		return out + " err=" + es
	case "flush":
		i := needIf(2)
		if i == nil {
			return "bad-op"
		}
		i.FlushCache()
		return "ok"
	case "clear":
		i := needIf(2)
		if i == nil {
			return "bad-op"
		}
		i.ClearCache()
		return "ok"
	case "sub":
		i := needIf(5)
		if i == nil {
			return "bad-op"
		}
		q, ok := e.BuildQuery(e.db, f[3], f[4])
		if !ok {
			return "bad-op"
		}
		s, err := i.Subscribe(q)
		if err != nil {
			if strings.HasPrefix(ErrStr(err), "err:") {
				return "badquery"
			}
			return ErrStr(err)
		}
		e.subs[f[2]] = &subState{sub: s}
		e.subIDs = append(e.subIDs, f[2])
		return "ok"
	case "feed":
		if len(f) != 2 || e.subs[f[1]] == nil {
			return "bad-op"
		}
		e.snapshotFeeds()
		s := e.subs[f[1]]
		out := showList(s.seen)
		s.seen = nil
		return out
	}
	return "bad-op"
}
