package dbx

import (
	"fmt"
	"math/big"
	"sort"
	"strconv"
	"strings"
)

// The property monitor's reference: a plain key-to-record map in Go with the documented visibility,
// permission and condition semantics, written independently of the Lean model. It reads op lines and
// implementation outputs only. Where the documentation leaves a result open (operator applied to a
// field of another type, records without fields under a condition, interfaces that rewrite expiry on
// every save) the monitor does not judge: it must never demand more than the property states.

type oval struct {
	kind string // s, n, b, o, a
	s    string
	n    *big.Int // thousandths, exact (nil = 0)
	b    bool
	o    map[string]oval
	a    []string
}

type orec struct {
	form    string
	payload string // canonical rendering
	fields  map[string]oval
	secret  bool
	crown   bool
	expires string // canonical token ("0" = none)
	rel     int64  // pending relative expiry (Deleted = -rel)
	created string // "" = set by the database ("@+0"), else the canonical token given by the writer
	cacheBy map[string]bool
}

type oiface struct {
	loc, int   bool
	cache      string
	ms, mj     bool
	rel        int64
	abs        string
	judgeable  bool // no AlwaysSet*Expiry option: the oracle predicts metadata
	batch      []string
	batchOpen  bool
	staleKeys  map[string]string // key -> "putmany"/"purge": written behind this interface's cache
	lastWriter bool
}

// Oracle is the monitor state for one case.
type Oracle struct {
	Backend  string
	Shadow   bool
	recs     map[string]*orec
	ifs      map[string]*oiface
	writers  map[string]bool
	lastDump map[string]string
	lastDumpIdx int
	unjudged map[string]bool // keys written through an interface that rewrites the expiry on every save
	prevLine string
	V        []OViol
	Skips    map[string]int
}

// OViol is one monitor finding.
type OViol struct {
	Idx  int
	Sig  string
	What string
}

// NewOracle starts a case.
func NewOracle() *Oracle {
	return &Oracle{recs: map[string]*orec{}, ifs: map[string]*oiface{}, writers: map[string]bool{}, Skips: map[string]int{}, unjudged: map[string]bool{}, lastDumpIdx: -10}
}

func parsePrimTok(tok string) (oval, bool) {
	if len(tok) < 2 || tok[1] != ':' {
		return oval{}, false
	}
	v := tok[2:]
	switch tok[0] {
	case 's':
		return oval{kind: "s", s: v}, true
	case 'i':
		n, err := strconv.ParseInt(v, 10, 64)
		return oval{kind: "n", n: IntMilli(n)}, err == nil
	case 'f':
		// a float64 field / JSON number written from a float64: the value held is the nearest float64
		n, ok := MilliTok(v)
		if !ok {
			return oval{}, false
		}
		return oval{kind: "n", n: FloatMilli(MilliFloat(n))}, true
	case 'n':
		n, ok := MilliTok(v)
		return oval{kind: "n", n: n}, ok
	case 'b':
		return oval{kind: "b", b: v == "1"}, v == "0" || v == "1"
	}
	return oval{}, false
}

func parseValTok(tok string) (oval, bool) {
	switch {
	case strings.HasPrefix(tok, "o{") && strings.HasSuffix(tok, "}"):
		o := map[string]oval{}
		if body := tok[2 : len(tok)-1]; body != "" {
			for _, p := range strings.Split(body, "+") {
				i := strings.IndexByte(p, '=')
				if i < 0 {
					return oval{}, false
				}
				v, ok := parsePrimTok(p[i+1:])
				if !ok {
					return oval{}, false
				}
				o[p[:i]] = v
			}
		}
		return oval{kind: "o", o: o}, true
	case strings.HasPrefix(tok, "a[") && strings.HasSuffix(tok, "]"):
		var a []string
		if body := tok[2 : len(tok)-1]; body != "" {
			a = strings.Split(body, ",")
		}
		return oval{kind: "a", a: a}, true
	}
	return parsePrimTok(tok)
}

func (v oval) num() *big.Int {
	if v.n == nil {
		return new(big.Int)
	}
	return v.n
}

func showOval(v oval) string {
	switch v.kind {
	case "s":
		return "s:" + v.s
	case "n":
		return "n:" + v.num().String()
	case "b":
		return "b:" + b01(v.b)
	case "o":
		names := make([]string, 0, len(v.o))
		for n := range v.o {
			names = append(names, n)
		}
		sort.Strings(names)
		var p []string
		for _, n := range names {
			p = append(p, n+"="+showOval(v.o[n]))
		}
		return "o{" + strings.Join(p, "+") + "}"
	case "a":
		return "a[" + strings.Join(v.a, ",") + "]"
	}
	return "?"
}

func canonFields(fs map[string]oval) string {
	if len(fs) == 0 {
		return "-"
	}
	names := make([]string, 0, len(fs))
	for n := range fs {
		names = append(names, n)
	}
	sort.Strings(names)
	var p []string
	for _, n := range names {
		p = append(p, n+"="+showOval(fs[n]))
	}
	return strings.Join(p, ";")
}

// parsePayload reads a payload token the way the record is built: typed records have the whole schema.
func parsePayload(form, tok string) (map[string]oval, string, bool) {
	if form == "R" {
		return nil, tok, true
	}
	fs := map[string]oval{}
	if form == "T" {
		fs["S"] = oval{kind: "s"}
		fs["I"] = oval{kind: "n"}
		fs["F"] = oval{kind: "n"}
		fs["B"] = oval{kind: "b"}
		fs["N"] = oval{kind: "o", o: map[string]oval{"X": {kind: "n"}}}
		fs["L"] = oval{kind: "a"}
	}
	if tok != "-" {
		for _, p := range strings.Split(tok, ";") {
			i := strings.IndexByte(p, '=')
			if i < 0 {
				return nil, "", false
			}
			v, ok := parseValTok(p[i+1:])
			if !ok {
				return nil, "", false
			}
			fs[p[:i]] = v
		}
	}
	return fs, canonFields(fs), true
}

// tsClass: "none", "past", "future" for an expiry token.
func tsClass(tok string) string {
	switch {
	case tok == "0":
		return "none"
	case strings.HasPrefix(tok, "@+"):
		if tok == "@+0" {
			return "now"
		}
		return "future"
	case strings.HasPrefix(tok, "@-"):
		return "past"
	case tok == "@":
		return "now"
	}
	n, err := strconv.ParseInt(tok, 10, 64)
	if err != nil {
		return "?"
	}
	if n <= 0 {
		return "none"
	}
	return "past"
}

func canonTsTok(tok string) string {
	if tok == "@" {
		return "@+0"
	}
	return tok
}

func (o *Oracle) visible(k string) *orec {
	r := o.recs[k]
	if r == nil {
		return nil
	}
	if c := tsClass(r.expires); c == "past" {
		return nil
	}
	return r
}

func permitted(r *orec, i *oiface) bool {
	if !i.loc && r.crown {
		return false
	}
	if !i.int && r.secret {
		return false
	}
	return true
}

// staleSig: the recorded finding a deviation on this key belongs to, if the key was written behind the
// interface's cache (PutMany / Purge bypass the read cache and the delayed write set).
func staleSig(i *oiface, key string) string {
	if why := i.staleKeys[key]; why != "" && i.cache != "n" {
		return "C02:cache-not-invalidated-by-" + why
	}
	return ""
}

func (o *Oracle) add(idx int, sig, what string) {
	o.V = append(o.V, OViol{idx, sig, what})
}

// ---- documented condition semantics ---------------------------------------------------------------

// resolve follows a selector (root field, sub-level field, array length `#`, array index).
func resolve(fs map[string]oval, sel string) (oval, bool) {
	p := strings.Split(sel, ".")
	v, ok := fs[p[0]]
	if !ok {
		return oval{}, false
	}
	for _, seg := range p[1:] {
		switch v.kind {
		case "o":
			v, ok = v.o[seg]
			if !ok {
				return oval{}, false
			}
		case "a":
			if seg == "#" {
				v = oval{kind: "n", n: IntMilli(int64(len(v.a)))}
			} else {
				n, err := strconv.Atoi(seg)
				if err != nil || n < 0 || n >= len(v.a) {
					return oval{}, false
				}
				v = oval{kind: "s", s: v.a[n]}
			}
		default:
			return oval{}, false
		}
	}
	return v, true
}

type condVerdict int

const (
	cFalse condVerdict = iota
	cTrue
	cOpen // documentation leaves it open (operator vs. field type)
)

func cmpSign(op string, c int) bool {
	switch op {
	case "eq":
		return c == 0
	case "gt":
		return c > 0
	case "ge":
		return c >= 0
	case "lt":
		return c < 0
	}
	return c <= 0
}

func cmpFloat(op string, a, b float64) bool {
	switch op {
	case "eq":
		return a == b
	case "gt":
		return a > b
	case "ge":
		return a >= b
	case "lt":
		return a < b
	}
	return a <= b
}

func evalLeaf(fs map[string]oval, sel, op, arg string) condVerdict {
	v, ok := resolve(fs, sel)
	tf := func(b bool) condVerdict {
		if b {
			return cTrue
		}
		return cFalse
	}
	if op == "ex" {
		return tf(ok)
	}
	if !ok {
		return cFalse
	}
	switch op {
	case "eq", "gt", "ge", "lt", "le":
		if v.kind != "n" {
			return cOpen
		}
		q, rem := new(big.Int).QuoRem(v.num(), big1000, new(big.Int))
		if rem.Sign() != 0 {
			return cOpen // integer operator on a fractional number
		}
		n, err := strconv.ParseInt(arg, 10, 64)
		// the typed record declares F as float: an integer operator on it is outside "Req. Type"
		if sel == "F" || err != nil {
			return cOpen
		}
		if !q.IsInt64() {
			return cOpen // a JSON number beyond the int64 range under an integer operator: not decided by the documentation
		}
		// integer operators compare integers: exactly, over the whole int64 range
		return tf(cmpSign(op, q.Cmp(big.NewInt(n))))
	case "feq", "fgt", "fge", "flt", "fle":
		if v.kind != "n" || sel != "F" {
			return cOpen
		}
		n, ok := MilliTok(arg)
		if !ok {
			return cOpen
		}
		// float operators compare float64 values: the stored number and the operand as float64
		return tf(cmpFloat(op[1:], MilliFloat(v.num()), MilliFloat(n)))
	case "sa", "co", "sw", "ew", "in", "re":
		if v.kind != "s" {
			return cOpen
		}
		switch op {
		case "sa":
			return tf(v.s == arg)
		case "co":
			return tf(strings.Contains(v.s, arg))
		case "sw":
			return tf(strings.HasPrefix(v.s, arg))
		case "ew":
			return tf(strings.HasSuffix(v.s, arg))
		case "in":
			for _, x := range strings.Split(arg, ";") {
				if x == v.s {
					return cTrue
				}
			}
			return cFalse
		default:
			lit := arg[2:]
			switch arg[:2] {
			case "11":
				return tf(v.s == lit)
			case "10":
				return tf(strings.HasPrefix(v.s, lit))
			case "01":
				return tf(strings.HasSuffix(v.s, lit))
			}
			return tf(strings.Contains(v.s, lit))
		}
	case "is":
		if v.kind != "b" {
			return cOpen
		}
		return tf(v.b == (arg == "1"))
	}
	return cOpen
}

// evalCond evaluates a condition token; rest is the unread remainder. hasErr reports a condition whose
// constructor failed (the query must be rejected).
func evalCond(fs map[string]oval, s string) (v condVerdict, rest string, hasErr bool, subLevel bool) {
	and := func(a, b condVerdict) condVerdict {
		if a == cFalse || b == cFalse {
			return cFalse
		}
		if a == cOpen || b == cOpen {
			return cOpen
		}
		return cTrue
	}
	or := func(a, b condVerdict) condVerdict {
		if a == cTrue || b == cTrue {
			return cTrue
		}
		if a == cOpen || b == cOpen {
			return cOpen
		}
		return cFalse
	}
	switch {
	case s == "":
		return cOpen, "", true, false
	case s[0] == 'T':
		return cTrue, s[1:], false, false
	case s[0] == 'F':
		return cFalse, s[1:], false, false
	case s[0] == 'E':
		rest = s[1:]
		for rest != "" && rest[0] >= '0' && rest[0] <= '9' {
			rest = rest[1:]
		}
		return cFalse, rest, true, false
	case s[0] == '!':
		v, rest, hasErr, subLevel = evalCond(fs, s[1:])
		switch v {
		case cTrue:
			v = cFalse
		case cFalse:
			v = cTrue
		}
		return
	case strings.HasPrefix(s, "&(") || strings.HasPrefix(s, "|("):
		isAnd := s[0] == '&'
		acc := cFalse
		if isAnd {
			acc = cTrue
		}
		rest = s[2:]
		for {
			if rest == "" {
				return cOpen, "", true, subLevel
			}
			if rest[0] == ')' {
				return acc, rest[1:], hasErr, subLevel
			}
			if rest[0] == ',' {
				rest = rest[1:]
			}
			x, r2, e2, s2 := evalCond(fs, rest)
			rest, hasErr, subLevel = r2, hasErr || e2, subLevel || s2
			if isAnd {
				acc = and(acc, x)
			} else {
				acc = or(acc, x)
			}
		}
	case s[0] == '[':
		end := strings.IndexByte(s, ']')
		p := strings.Split(s[1:end], ":")
		return evalLeaf(fs, p[0], p[1], p[2]), s[end+1:], false, strings.Contains(p[0], ".")
	}
	return cOpen, "", true, false
}

// ---- op processing -------------------------------------------------------------------------------

func splitRecTok(tok string) (key, meta, payload string, ok bool) {
	p := strings.SplitN(tok, "~", 3)
	if len(p) != 3 {
		return "", "", "", false
	}
	return p[0], p[1], p[2], true
}

// store applies a put / putnew / pmput to the reference map.
func (o *Oracle) store(i *oiface, id string, f []string, isNew bool) {
	key, form, meta, payload := f[0], f[1], f[2], f[3]
	m := strings.Split(meta, ",")
	fs, canon, ok := parsePayload(form, payload)
	if !ok || len(m) != 6 {
		return
	}
	c, e, d := m[0], m[2], m[3]
	if isNew {
		c, e, d = "0", "0", "0"
	}
	deleted := tsClass(d) == "past" || tsClass(d) == "future" || tsClass(d) == "now"
	if deleted {
		delete(o.recs, key)
		return
	}
	r := &orec{form: form, payload: canon, fields: fs, secret: m[4] == "1" || i.ms, crown: m[5] == "1" || i.mj, expires: canonTsTok(e), cacheBy: map[string]bool{}}
	if n, err := strconv.ParseInt(d, 10, 64); err == nil && n < 0 {
		r.rel = -n
		r.expires = fmt.Sprintf("@+%d", -n)
	}
	if tsClass(c) != "none" {
		r.created = canonTsTok(c)
	}
	o.recs[key] = r
}

func (o *Oracle) touch(r *orec) {
	if r.rel > 0 {
		r.expires = fmt.Sprintf("@+%d", r.rel)
	}
}

// checkRec compares a returned record token with the reference record.
func (o *Oracle) checkRec(idx int, i *oiface, what, tok string, r *orec, key string) {
	k, meta, payload, ok := splitRecTok(tok)
	if !ok {
		o.add(idx, "C02:malformed-output:"+what, tok)
		return
	}
	if k != key {
		o.add(idx, "C02:wrong-key:"+what, fmt.Sprintf("asked for %s, got %s", key, k))
		return
	}
	if payload != r.payload {
		sig := "C02:stale-or-wrong-data:" + what
		if why := i.staleKeys[key]; why != "" && i.cache != "n" {
			sig = "C02:cache-not-invalidated-by-" + why
		}
		o.add(idx, sig, fmt.Sprintf("key %s: got data %s, most recently stored %s", key, payload, r.payload))
		return
	}
	m := strings.Split(meta, ",")
	if len(m) != 6 {
		o.add(idx, "C02:malformed-output:"+what, tok)
		return
	}
	if i.judgeable && staleSig(i, key) != "" {
		wantD := "0"
		if r.rel > 0 {
			wantD = fmt.Sprintf("-%d", r.rel)
		}
		if m[4] != b01(r.secret) || m[5] != b01(r.crown) || m[3] != wantD || (r.created != "" && m[0] != r.created) ||
			(m[2] != r.expires && !(r.rel > 0 && m[2] == fmt.Sprintf("@+%d", r.rel))) {
			o.add(idx, staleSig(i, key), fmt.Sprintf("key %s: metadata %s differs from the most recently stored", key, meta))
			return
		}
	}
	if i.judgeable {
		wantS, wantJ := b01(r.secret), b01(r.crown)
		if m[4] != wantS || m[5] != wantJ {
			o.add(idx, "C02:wrong-flags:"+what, fmt.Sprintf("key %s: flags %s,%s want %s,%s", key, m[4], m[5], wantS, wantJ))
		}
		if m[2] != r.expires {
			// a pending relative expiry materialises "whenever the record is saved"; a flush of the delayed
			// write set is such a save: both readings are accepted
			if r.rel > 0 && m[2] == fmt.Sprintf("@+%d", r.rel) {
				r.expires = m[2]
			} else {
				o.add(idx, "C02:wrong-expiry:"+what, fmt.Sprintf("key %s: expires %s, most recently stored %s", key, m[2], r.expires))
			}
		}
		wantD := "0"
		if r.rel > 0 {
			wantD = fmt.Sprintf("-%d", r.rel)
		}
		if m[3] != wantD {
			o.add(idx, "C02:wrong-deleted-field:"+what, fmt.Sprintf("key %s: deleted %s want %s", key, m[3], wantD))
		}
		if r.created != "" && m[0] != r.created {
			o.add(idx, "C02:wrong-created:"+what, fmt.Sprintf("key %s: created %s want %s", key, m[0], r.created))
		}
	}
}

// Step feeds one op line and its implementation output to the oracle.
func (o *Oracle) Step(idx int, line, out string) {
	defer func() { o.prevLine = line }()
	f := strings.Fields(line)
	if len(f) == 0 {
		return
	}
	if strings.HasPrefix(out, "PANIC") || out == "HANG" {
		o.add(idx, "C02:"+strings.Fields(out)[0]+":"+f[0], out)
		return
	}
	if strings.HasPrefix(out, "err:") || strings.HasPrefix(out, "wipe-failed") {
		o.add(idx, "C02:unexpected-error:"+f[0]+":"+o.Backend, out)
		return
	}
	switch f[0] {
	case "cfg":
		o.Backend, o.Shadow = f[1], f[2] == "1"
		return
	case "if":
		o.ifs[f[1]] = &oiface{loc: f[2] == "1", int: f[3] == "1", cache: f[4], ms: f[5] == "1", mj: f[6] == "1", abs: f[8], staleKeys: map[string]string{}}
		o.ifs[f[1]].rel, _ = strconv.ParseInt(f[7], 10, 64)
		o.ifs[f[1]].judgeable = o.ifs[f[1]].rel <= 0 && tsClass(f[8]) == "none"
		return
	case "maintain", "gmaintain", "dump", "feed", "sub":
		o.stepGlobal(idx, f, out)
		return
	case "iter":
		// "a storage error during the query is reported to the consumer once the result stream has ended"
		want := "nil"
		if f[2] == "1" {
			want = "E"
		}
		if out != "ok "+f[1]+" err="+want {
			sig := "C02:iterator-hand-over"
			if strings.HasSuffix(out, "err=nil") && want == "E" {
				sig = "C02:iterator-error-lost"
			}
			o.add(idx, sig, fmt.Sprintf("producer sent %s records and finished with error %s; consumer saw %s", f[1], want, out))
		}
		return
	case "slowquery":
		ff := strings.Fields(out)
		if len(ff) != 3 || ff[0] != "ok" {
			o.add(idx, "C02:malformed-output:slowquery", out)
			return
		}
		n, _ := strconv.Atoi(ff[1])
		vis := 0
		for k := range o.recs {
			if o.visible(k) != nil {
				vis++
			}
		}
		if n < vis && ff[2] == "err=nil" {
			o.add(idx, "C02:iterator-error-lost", fmt.Sprintf("query ended after %d of %d visible records without reporting an error", n, vis))
		}
		if n > vis {
			o.add(idx, "C02:query-returns-extra-record:"+o.Backend, out)
		}
		return
	}
	if len(f) < 2 {
		return
	}
	i := o.ifs[f[1]]
	if i == nil {
		return
	}
	all := i.loc && i.int
	// Keys are opaque strings for the reference map (it works on the key tokens: the token encoding is a
	// prefix code, so "is a prefix of" is the same on tokens and on keys). The file-tree backend stores key k in
	// the file <base>/k: the property exempts key sets that are not prefix-free at path-segment boundaries, and a
	// name that is not a clean relative path (empty, `.` or `..` segment) names no file of its own — such a key
	// must be refused, never stored under another name.
	switch f[0] {
	case "get", "exists", "put", "putnew", "del", "setabs", "setrel", "mksecret", "mkcrown", "insert", "reput":
		if len(f) < 3 {
			return
		}
		unclean := o.Backend == "f" && !FSCleanKey(f[2])
		if unclean {
			if out != "badkey" {
				o.add(idx, "C02:fstree-takes-unclean-key:"+f[0], fmt.Sprintf("key %s is not a clean relative path (it names the same file as another key, or none), %s answered %s instead of refusing it", f[2], f[0], out))
			}
			return
		}
		if out == "badkey" {
			o.add(idx, "C02:key-refused:"+f[0]+":"+o.Backend, fmt.Sprintf("key %s refused", f[2]))
			return
		}
	}
	// An interface that rewrites the expiry on every save: metadata and visibility after its writes are
	// left to the correspondence with the model; the oracle only follows the outputs.
	switch f[0] {
	case "get", "exists":
		key := f[2]
		r := o.visible(key)
		if !i.judgeable || o.unjudged[key] {
			o.Skips["iface-rewrites-expiry"]++
			return
		}
		switch {
		case r == nil:
			want := "notfound"
			if f[0] == "exists" {
				want = "false"
			}
			if out != want {
				sig := "C02:invisible-record-returned:" + f[0]
				if why := i.staleKeys[key]; why != "" && i.cache != "n" {
					sig = "C02:cache-not-invalidated-by-" + why
				} else if i.cache != "n" {
					sig = "C02:invisible-record-returned-from-cache:" + f[0]
				}
				o.add(idx, sig, fmt.Sprintf("key %s is deleted, expired or was never stored, %s answered %s", key, f[0], out))
			}
		case !permitted(r, i):
			want := "denied"
			if f[0] == "exists" {
				want = "true"
			}
			if out != want {
				o.add(idx, "C03:non-permitted-record:"+f[0], fmt.Sprintf("key %s is not permitted for this interface, %s answered %s", key, f[0], out))
			}
		default:
			if f[0] == "exists" {
				if out != "true" {
					sig := "C02:visible-record-missing:exists"
					if ss := staleSig(i, key); ss != "" {
						sig = ss // written behind this interface's cache / pending write set (recorded finding), as for get
					}
					o.add(idx, sig, fmt.Sprintf("key %s is stored and valid, exists answered %s", key, out))
				}
				return
			}
			if !strings.HasPrefix(out, "ok ") {
				sig := "C02:visible-record-missing:get"
				if why := i.staleKeys[key]; why != "" && i.cache != "n" {
					sig = "C02:cache-not-invalidated-by-" + why
				}
				o.add(idx, sig, fmt.Sprintf("key %s is stored and valid, get answered %s", key, out))
				return
			}
			o.checkRec(idx, i, "get", out[3:], r, key)
		}
	case "put", "putnew":
		key := f[2]
		if !all {
			if r := o.visible(key); r != nil && !permitted(r, i) {
				if out != "denied" {
					o.add(idx, "C03:write-to-non-permitted-record:"+f[0], fmt.Sprintf("key %s: %s answered %s", key, f[0], out))
				}
				return
			}
		}
		if out != "ok" {
			o.add(idx, "C02:write-failed:"+f[0]+":"+o.Backend, fmt.Sprintf("key %s: %s answered %s", key, f[0], out))
			return
		}
		if !i.judgeable {
			o.storeUnjudged(key)
		} else {
			o.store(i, f[1], f[2:], f[0] == "putnew")
			delete(o.unjudged, key)
		}
		delete(i.staleKeys, key)
		o.noteWriter(f[1], key)
	case "del", "setabs", "setrel", "mksecret", "mkcrown", "insert", "reput":
		key := f[2]
		r := o.visible(key)
		if !i.judgeable || o.unjudged[key] {
			o.Skips["iface-rewrites-expiry"]++
			if out == "ok" {
				o.storeUnjudged(key)
			}
			return
		}
		switch {
		case r == nil:
			if out != "notfound" {
				sig := "C02:invisible-record-modified:" + f[0]
				if why := i.staleKeys[key]; why != "" && i.cache != "n" {
					sig = "C02:cache-not-invalidated-by-" + why
				} else if i.cache != "n" {
					sig = "C02:invisible-record-returned-from-cache:" + f[0]
				}
				o.add(idx, sig, fmt.Sprintf("key %s is not visible, %s answered %s", key, f[0], out))
			}
			return
		case !permitted(r, i):
			if out != "denied" {
				o.add(idx, "C03:write-to-non-permitted-record:"+f[0], fmt.Sprintf("key %s: %s answered %s", key, f[0], out))
			}
			return
		}
		if out != "ok" && !(f[0] == "insert" && out == "setfailed") {
			sig := "C02:visible-record-missing:" + f[0]
			if why := i.staleKeys[key]; why != "" && i.cache != "n" {
				sig = "C02:cache-not-invalidated-by-" + why
			}
			o.add(idx, sig, fmt.Sprintf("key %s is stored and valid, %s answered %s", key, f[0], out))
			return
		}
		if out == "setfailed" {
			return
		}
		o.noteWriter(f[1], key)
		if why := i.staleKeys[key]; why != "" && i.cache != "n" {
			// the interface modified its stale cached copy and wrote it back: from here on the stored
			// record is that copy; the oracle can no longer follow the key.
			delete(o.recs, key)
			o.unjudged[key] = true
			o.Skips["stale-copy-written-back"]++
			o.add(idx, "C02:cache-not-invalidated-by-"+why, fmt.Sprintf("key %s: %s worked on the cached copy", key, f[0]))
			return
		}
		o.touch(r)
		r.secret = r.secret || i.ms
		r.crown = r.crown || i.mj
		switch f[0] {
		case "reput":
			// data and flags stay; the save materialises a pending relative expiry (touch above)
		case "del":
			delete(o.recs, key)
		case "setabs":
			r.expires = canonTsTok(f[3])
			if tsClass(f[3]) == "now" {
				r.expires = "@+0"
			}
			r.rel = 0
		case "setrel":
			n, _ := strconv.ParseInt(f[3], 10, 64)
			if n > 0 {
				r.rel = n
			} else if n == 0 {
				r.rel = 0
			}
		case "mksecret":
			r.secret = true
		case "mkcrown":
			r.crown = true
		case "insert":
			v, ok := parsePrimTok(f[4])
			if ok && r.form != "R" {
				r.fields[f[3]] = v
				r.payload = canonFields(r.fields)
			}
		}
	case "pmbegin":
		i.batch, i.batchOpen = nil, true
	case "pmput":
		if !all {
			if out != "denied" {
				o.add(idx, "C03:batch-write-without-all-permissions", "pmput answered "+out)
			}
			return
		}
		if out == "ok" {
			i.batch = append(i.batch, strings.Join(f[2:], " "))
		}
	case "pmputx":
	case "pmend":
		if !all {
			if out != "denied" {
				o.add(idx, "C03:batch-write-without-all-permissions", "pmend answered "+out)
			}
			return
		}
		if out == "ok" {
			for _, b := range i.batch {
				bf := strings.Fields(b)
				if i.judgeable {
					o.store(i, f[1], bf, false)
					delete(o.unjudged, bf[0])
				} else {
					o.storeUnjudged(bf[0])
				}
				o.noteWriter(f[1], bf[0])
				for _, other := range o.ifs {
					if other.cache != "n" {
						other.staleKeys[bf[0]] = "putmany"
					}
				}
			}
		} else if out != "notimpl" {
			o.add(idx, "C02:write-failed:pmend:"+o.Backend, "pmend answered "+out)
		}
		i.batch, i.batchOpen = nil, false
	case "query", "purge":
		o.stepQuery(idx, i, f, out)
	case "flush", "clear":
	}
}

func (o *Oracle) noteWriter(id, key string) {
	o.writers[id] = true
}

// storeUnjudged: a write through an interface whose options rewrite the expiry; visibility and metadata of
// the key are left to the correspondence with the model until a judgeable interface overwrites it.
func (o *Oracle) storeUnjudged(key string) {
	delete(o.recs, key)
	o.unjudged[key] = true
	o.Skips["write-through-expiry-rewriting-iface"]++
}

func (o *Oracle) anyUnjudged() bool { return len(o.unjudged) > 0 }

// FSCleanKey: the key (given as a protocol token) is a clean relative path: no empty, `.` or `..` segment.
func FSCleanKey(tok string) bool {
	k, ok := DecKey(tok)
	if !ok {
		return false
	}
	for _, seg := range strings.Split(k, "/") {
		if seg == "" || seg == "." || seg == ".." {
			return false
		}
	}
	return true
}

// PQOut is the parsed answer of a `pq` op.
type PQOut struct {
	Cap     int
	Parked  bool
	Reflag  string
	Arrived []string // record tokens in order of arrival
	Err     string
}

// ParsePQ parses `ok cap=<c> parked=<0|1> reflag=<r> n=<n> <tok>… err=<e>`.
func ParsePQ(out string) (PQOut, bool) {
	pf := strings.Fields(out)
	var r PQOut
	n := -1
	if len(pf) < 6 || pf[0] != "ok" {
		return r, false
	}
	r.Cap = -1
	fmt.Sscanf(pf[1], "cap=%d", &r.Cap)
	fmt.Sscanf(pf[4], "n=%d", &n)
	if r.Cap < 0 || n < 0 || len(pf) != 6+n || !strings.HasPrefix(pf[len(pf)-1], "err=") || !strings.HasPrefix(pf[3], "reflag=") {
		return r, false
	}
	r.Parked = pf[2] == "parked=1"
	r.Reflag = strings.TrimPrefix(pf[3], "reflag=")
	r.Arrived = pf[5 : 5+n]
	r.Err = strings.TrimPrefix(pf[len(pf)-1], "err=")
	return r, true
}

// ParseListOut parses `ok <n> <tok>… [err=…]`.
func ParseListOut(out string) (n int, toks []string, tail string, ok bool) { return parseListOut(out) }

// TsClass classifies a canonical timestamp token: "none", "past", "now", "future".
func TsClass(tok string) string { return tsClass(tok) }

func parseListOut(out string) (n int, toks []string, tail string, ok bool) {
	f := strings.Fields(out)
	if len(f) < 2 || f[0] != "ok" {
		return 0, nil, "", false
	}
	n, err := strconv.Atoi(f[1])
	if err != nil {
		return 0, nil, "", false
	}
	rest := f[2:]
	if len(rest) > 0 && strings.HasPrefix(rest[len(rest)-1], "err=") {
		tail = rest[len(rest)-1]
		rest = rest[:len(rest)-1]
	}
	if len(rest) != n {
		return 0, nil, "", false
	}
	return n, rest, tail, true
}

func (o *Oracle) stepQuery(idx int, i *oiface, f []string, out string) {
	pfx, cond := f[2], f[3]
	if pfx == "-" {
		pfx = ""
	}
	// construction errors must be rejected
	if cond != "-" {
		if _, _, hasErr, _ := evalCond(map[string]oval{}, cond); hasErr {
			if out != "badquery" {
				o.add(idx, "C02:invalid-query-accepted:"+f[0], out)
			}
			return
		}
	}
	if f[0] == "purge" && out == "notimpl" {
		if o.Backend == "b" {
			o.add(idx, "C02:purge-not-implemented:b", out)
		}
		return
	}
	n, toks, tail, ok := parseListOut(out)
	if f[0] == "purge" {
		f2 := strings.Fields(out)
		if len(f2) != 2 || f2[0] != "ok" {
			o.add(idx, "C02:purge-failed:"+o.Backend, out)
			return
		}
		n, _ = strconv.Atoi(f2[1])
		ok = true
	}
	if !ok {
		o.add(idx, "C02:malformed-output:"+f[0], out)
		return
	}
	if f[0] == "query" && tail != "err=nil" {
		o.add(idx, "C02:query-error:"+o.Backend, fmt.Sprintf("query over prefix %q ended with %s", pfx, tail))
		return
	}
	// expected set under the documented semantics
	type exp struct {
		key string
		r   *orec
	}
	var want []exp
	open := false
	subLevelStruct := false
	if o.anyUnjudged() {
		open = true
		o.Skips["query-with-unjudged-records"]++
	}
	keys := make([]string, 0, len(o.recs))
	for k := range o.recs {
		keys = append(keys, k)
	}
	sort.Strings(keys)
	for _, k := range keys {
		r := o.visible(k)
		if r == nil || !strings.HasPrefix(k, pfx) || !permitted(r, i) {
			continue
		}
		if tsClass(r.expires) == "now" {
			open = true
			continue
		}
		if cond != "-" {
			if r.form == "R" || len(r.fields) == 0 {
				// a record without fields under a condition: not decided by the documentation
				open = true
				o.Skips["condition-on-record-without-fields"]++
				continue
			}
			v, _, _, sub := evalCond(r.fields, cond)
			if v == cOpen {
				open = true
				o.Skips["operator-vs-field-type-left-open"]++
				continue
			}
			if sub && r.form == "T" && !o.serializes() {
				subLevelStruct = true
			}
			if v == cFalse {
				continue
			}
		}
		want = append(want, exp{k, r})
	}
	if f[0] == "purge" {
		if !open && n != len(want) {
			sig := "C02:purge-count:" + o.Backend
			for k := range i.staleKeys {
				if strings.HasPrefix(k, pfx) && staleSig(i, k) != "" {
					sig = staleSig(i, k)
				}
			}
			o.add(idx, sig, fmt.Sprintf("purge of prefix %q cond %s deleted %d records, %d visible records match", pfx, cond, n, len(want)))
		}
		if !open {
			for _, w := range want {
				delete(o.recs, w.key)
				for _, other := range o.ifs {
					if other.cache != "n" {
						other.staleKeys[w.key] = "purge"
					}
				}
			}
		} else {
			// cannot follow which records went away
			for _, k := range keys {
				if strings.HasPrefix(k, pfx) {
					o.unjudged[k] = true
					delete(o.recs, k)
				}
			}
		}
		return
	}
	if open {
		// only soundness: everything returned must be a stored visible record with that prefix
		for _, t := range toks {
			k, _, _, _ := splitRecTok(t)
			if !strings.HasPrefix(k, pfx) {
				o.add(idx, "C02:query-returned-key-outside-prefix:"+o.Backend, fmt.Sprintf("prefix %q, got %s", pfx, k))
			}
		}
		return
	}
	got := map[string]string{}
	for _, t := range toks {
		k, _, _, ok := splitRecTok(t)
		if !ok {
			o.add(idx, "C02:malformed-output:query", t)
			return
		}
		if _, dup := got[k]; dup {
			o.add(idx, "C02:query-duplicate:"+o.Backend, k)
		}
		got[k] = t
	}
	for _, w := range want {
		t, ok := got[w.key]
		if !ok {
			sig := "C02:query-misses-record:" + o.Backend
			if ss := staleSig(i, w.key); ss != "" {
				sig = ss
			} else if subLevelStruct {
				sig = "C02:struct-accessor-sublevel-selector"
			}
			o.add(idx, sig, fmt.Sprintf("prefix %q cond %s: visible matching record %s not returned", pfx, cond, w.key))
			continue
		}
		o.checkRec(idx, i, "query", t, w.r, w.key)
		delete(got, w.key)
	}
	for k := range got {
		sig := "C02:query-returns-extra-record:" + o.Backend
		if ss := staleSig(i, k); ss != "" {
			sig = ss
		} else if !strings.HasPrefix(k, pfx) {
			sig = "C02:query-returned-key-outside-prefix:" + o.Backend
		} else if subLevelStruct {
			sig = "C02:struct-accessor-sublevel-selector"
		}
		o.add(idx, sig, fmt.Sprintf("prefix %q cond %s: %s returned but it is not a visible matching record", pfx, cond, k))
	}
}

func (o *Oracle) serializes() bool { return o.Backend != "h" }

func (o *Oracle) stepGlobal(idx int, f []string, out string) {
	switch f[0] {
	case "dump":
		_, toks, _, ok := parseListOut(out)
		if !ok {
			o.add(idx, "C02:malformed-output:dump", out)
			return
		}
		cur := map[string]string{}
		for _, t := range toks {
			p := strings.SplitN(t, "~", 2)
			if len(p) == 2 {
				cur[p[0]] = p[1]
			}
		}
		// "maintenance physically removes only records that are deleted or expired":
		// dump; maintain; dump
		pf := strings.Fields(o.prevLine)
		if len(pf) > 0 && (pf[0] == "maintain" || pf[0] == "gmaintain") && o.lastDump != nil && o.lastDumpIdx == idx-2 {
			for k, meta := range o.lastDump {
				if _, still := cur[k]; still {
					continue
				}
				m := strings.Split(meta, ",")
				if len(m) != 6 {
					continue
				}
				dead := tsClass(m[3]) == "past" || tsClass(m[3]) == "future" || tsClass(m[3]) == "now" || tsClass(m[2]) == "past"
				if !dead {
					o.add(idx, "C02:maintenance-removed-live-record:"+o.Backend, fmt.Sprintf("key %s (meta %s) was physically removed by %s", k, meta, o.prevLine))
				}
			}
		}
		o.lastDump, o.lastDumpIdx = cur, idx
	case "maintain", "gmaintain":
		if out != "ok" {
			o.add(idx, "C02:maintenance-failed:"+o.Backend, out)
		}
	}
}
