package dbx

import (
	"fmt"
	"sort"
	"strings"
)

// Monitor for "clock boundary" cases (C02). Such a case sets up records whose expiry time is one or two seconds
// ahead on several databases, waits for that second to begin (`waitsec n`) and then runs, per database, a block
//
//	clock; get k1 … get kn; query pfx -; <maintain t | gmaintain | purge pfx ->; get k1 … get kn; query pfx -; clock
//
// A block is judged only if both clock readings are the same second: then no record's visibility can have changed
// by the passing of time, and the property's clauses read literally:
//   - "a query yields exactly the visible records": the keys of the query result are the keys get answers,
//   - "maintenance … never changes what is visible": every get and the query answer after maintenance exactly
//     what they answered before,
//   - purge removes and counts exactly what a query would return.
// The monitor takes "visible" from the implementation's own get in that second; it does not decide whether a
// record whose expiry time equals the clock is visible, only that all paths agree and maintenance changes nothing.

// IsBoundaryCase recognises the case class from its op lines (replays carry no kind).
func IsBoundaryCase(lines []string) bool {
	for _, l := range lines {
		if strings.HasPrefix(l, "waitsec ") {
			return true
		}
	}
	return false
}

type boundaryBlock struct {
	start   int
	clock   string
	backend string
	keys    []string
	pre     map[string]string
	post    map[string]string
	preQ    string
	postQ   string
	pfx     string
	op      []string
	opOut   string
	opIdx   int
	after   bool
}

// BoundaryStats counts judged / skipped blocks (evidence).
type BoundaryStats struct {
	Judged, CrossedSecond, Late int
	AtBoundary                  int // judged blocks in which maintenance / purge ran
}

// MonitorBoundary judges a boundary case.
func MonitorBoundary(lines, outs []string, st *BoundaryStats) (vs []OViol) {
	backend := "?"
	var b *boundaryBlock
	add := func(idx int, sig, what string) { vs = append(vs, OViol{idx, sig, what}) }
	for i, l := range lines {
		f := strings.Fields(l)
		if len(f) == 0 || i >= len(outs) {
			continue
		}
		out := outs[i]
		if strings.HasPrefix(out, "PANIC") || out == "HANG" {
			add(i, "C02:"+strings.Fields(out)[0]+":"+f[0], out)
			continue
		}
		if strings.HasPrefix(out, "err:") || strings.HasPrefix(out, "wipe-failed") {
			add(i, "C02:unexpected-error:"+f[0]+":"+backend, out)
			continue
		}
		switch f[0] {
		case "cfg", "addcfg", "usecfg":
			backend = f[1]
			b = nil
		case "waitsec":
			if out == "late" && st != nil {
				st.Late++
			}
		case "clock":
			if b == nil {
				b = &boundaryBlock{start: i, clock: out, backend: backend, pre: map[string]string{}, post: map[string]string{}}
				continue
			}
			blk := b
			b = nil
			if out != blk.clock || !strings.HasPrefix(out, "@+") {
				if st != nil {
					st.CrossedSecond++
				}
				continue
			}
			if st != nil {
				st.Judged++
				if blk.op != nil {
					st.AtBoundary++
				}
			}
			judgeBoundaryBlock(blk, i, add)
		case "get":
			if b == nil || len(f) != 3 {
				continue
			}
			if !b.after {
				b.keys = append(b.keys, f[2])
				b.pre[f[2]] = out
			} else {
				b.post[f[2]] = out
			}
		case "query":
			if b == nil || len(f) != 4 {
				continue
			}
			b.pfx = f[2]
			if !b.after {
				b.preQ = out
			} else {
				b.postQ = out
			}
		case "maintain", "gmaintain", "purge":
			if b == nil {
				continue
			}
			b.op, b.opOut, b.opIdx, b.after = f, out, i, true
		}
	}
	return vs
}

func queryKeys(out string) ([]string, bool) {
	_, toks, tail, ok := parseListOut(out)
	if !ok || tail != "err=nil" {
		return nil, false
	}
	var ks []string
	for _, t := range toks {
		k, _, _, ok := splitRecTok(t)
		if !ok {
			return nil, false
		}
		ks = append(ks, k)
	}
	sort.Strings(ks)
	return ks, true
}

func judgeBoundaryBlock(b *boundaryBlock, end int, add func(int, string, string)) {
	pfx := b.pfx
	if pfx == "-" {
		pfx = ""
	}
	visible := func(m map[string]string) ([]string, bool) {
		var ks []string
		for _, k := range b.keys {
			o, ok := m[k]
			if !ok {
				return nil, false
			}
			switch {
			case strings.HasPrefix(o, "ok "):
				if strings.HasPrefix(k, pfx) {
					ks = append(ks, k)
				}
			case o == "notfound":
			default:
				return nil, false
			}
		}
		sort.Strings(ks)
		return ks, true
	}
	same := func(a, c []string) bool { return strings.Join(a, " ") == strings.Join(c, " ") }
	sec := b.clock
	preVis, ok := visible(b.pre)
	if !ok {
		return
	}
	if b.preQ != "" {
		qk, ok := queryKeys(b.preQ)
		if !ok {
			add(b.start, "C02:query-error:"+b.backend, b.preQ)
		} else if !same(qk, preVis) {
			add(b.start, "C02:boundary-query-differs-from-get:"+b.backend, fmt.Sprintf("within second %s get answers the keys %v, the query over prefix %q lists %v", sec, preVis, pfx, qk))
		}
	}
	if b.op == nil {
		return
	}
	postVis, okPost := visible(b.post)
	switch b.op[0] {
	case "maintain", "gmaintain":
		if b.opOut != "ok" {
			add(b.opIdx, "C02:maintenance-failed:"+b.backend, b.opOut)
			return
		}
		for _, k := range b.keys {
			if po, ok := b.post[k]; ok && po != b.pre[k] {
				add(b.opIdx, "C02:maintenance-changed-visibility:"+b.backend, fmt.Sprintf("within second %s: before %q get %s answered %q, after it %q", sec, strings.Join(b.op, " "), k, b.pre[k], po))
				return
			}
		}
		if b.postQ != "" && b.preQ != "" && b.postQ != b.preQ {
			add(b.opIdx, "C02:maintenance-changed-visibility:"+b.backend, fmt.Sprintf("within second %s: before %q the query answered %q, after it %q", sec, strings.Join(b.op, " "), b.preQ, b.postQ))
		}
	case "purge":
		if b.opOut == "notimpl" {
			if b.backend == "b" {
				add(b.opIdx, "C02:purge-not-implemented:b", b.opOut)
			}
			return
		}
		var n int
		if _, err := fmt.Sscanf(b.opOut, "ok %d", &n); err != nil {
			add(b.opIdx, "C02:purge-failed:"+b.backend, b.opOut)
			return
		}
		if n != len(preVis) {
			add(b.opIdx, "C02:purge-count:"+b.backend, fmt.Sprintf("within second %s: purge of prefix %q deleted %d records, get answers %d keys under it: %v", sec, pfx, n, len(preVis), preVis))
		}
		if okPost && len(postVis) != 0 {
			add(b.opIdx, "C02:purged-record-still-visible:"+b.backend, fmt.Sprintf("within second %s: after the purge of prefix %q get still answers %v", sec, pfx, postVis))
		}
	}
	_ = end
}
