package dbx

import (
	"fmt"
	"math"
	"math/big"
	"math/rand"
	"strings"
)

// Generators shared by hx-c02 and hx-c03. Every random choice comes from the *rand.Rand handed in.

// KeysFS is prefix-free at path-segment boundaries (no key is both a file and a directory).
var KeysFS = []string{"a/x", "a/xy", "a/y", "ab/x", "ab/c/d", "abc", "b", "c/d/e", "c/d/f", "x.y/z-1"}

// KeysAny additionally has keys that are path prefixes of other keys.
var KeysAny = append(append([]string{}, KeysFS...), "a", "ab", "a/x/y", "c/d", "c")

// Prefixes are query key prefixes: empty, inside a segment, at a separator, a full key, nothing stored below.
var Prefixes = []string{"-", "-", "a", "a/", "a/x", "ab", "ab/", "ab/c", "abc", "b", "c/", "c/d", "c/d/", "zz", "zz/q", "a/xz", "x.y/"}

func pick[T any](r *rand.Rand, l []T) T { return l[r.Intn(len(l))] }

// The "special" key universe: keys are opaque strings for the database, but not for every layer below and
// above it — `:` separates database name and key (record.ParseKey), `/` and dot segments mean something to the
// file tree, `%`, `#`, `?`, `*`, `\`, space, `~`, `^` to URLs, globs, escapes and this harness's own line protocol;
// multi-byte runes and long names to anything that counts bytes. Keys that differ only behind a colon, by a
// doubled / leading / trailing colon, by case of an escape or by one byte at the end of a long name must stay
// different records.
var (
	longSeg = strings.Repeat("L", 200)
	// KeysSpecialFS: prefix-free at path-segment boundaries and clean relative paths.
	KeysSpecialFS = []string{
		"conn/10.0.0.1:443", "conn/10.0.0.1:8080", "conn/10.0.0.1", "conn/10.0.0.2:443", "conn/[::1]:53",
		"a:b", "a:b:c", "a::b", ":a", "a:", ":", "::", "a:c/c:d",
		"a b", "a%20b", "a%3Ab", "q#1", "q?x=1&y=2", "s*", "s*r", `w\x`, `w\\x`, "n\u00e9/\u00fc", "\u65e5\u672c/\u30ad\u30fc", "~t", "^u", "a^20b", "...", "..a", "a..", ".h/.k",
		longSeg, longSeg + "x", "long/" + longSeg[:180] + "/" + longSeg[:190] + ":1", "long/" + longSeg[:180] + "/" + longSeg[:190] + ":2",
	}
	// KeysSpecialAny additionally has names that are not clean relative paths (the file tree refuses them, every
	// other backend takes them as they are) and keys that are path prefixes of other keys.
	KeysSpecialAny = append(append([]string{}, KeysSpecialFS...),
		"a//b", "a/./b", "a/b", "a/b/", "/a", "./a", "a/../b", "b", "a/..", "conn", "conn/", "a", "long")
	// KeysUnclean are offered to the file tree now and then: it has to refuse them.
	KeysUnclean = []string{"a//b", "a/./b", "a/b/", "/a", "./a", "a/../b", "a/..", "conn/", "../x", ".", "..", "x/../../y"}
	// PrefixesSpecial: query prefixes with the same characters — ending inside a segment, at a colon, after it.
	PrefixesSpecial = []string{"-", "-", "conn/", "conn/10.0.0.1", "conn/10.0.0.1:", "conn/10.0.0.1:4", "conn/10.0.0.1:8080", "conn/10.0.0.1:80800", "conn/[", "conn/[:",
		"a:", "a:b", "a:b:", "a::", ":", "::", ":::", "a ", "a%", "a%2", "q", "q?", "q#", "s*", `w\`, `w\\`, "n\u00e9", "n\u00e9/", "\u65e5", "~", "^", "a^", ".", "..", "a.", "a/", "a//", "a/.", "a/./", "./",
		"long/", longSeg[:199], longSeg, "long/" + longSeg[:180] + "/" + longSeg[:190] + ":"}
)

// Universe picks the key space of a history: mostly the plain one, sometimes the special one. Keys and
// prefixes are returned as protocol tokens (EncKey).
func Universe(r *rand.Rand, backend string) (keys, prefixes []string, name string) {
	if r.Intn(4) != 0 {
		return Keys(backend), Prefixes, "plain"
	}
	ks, ps := KeysSpecialAny, PrefixesSpecial
	if backend == "f" {
		ks = KeysSpecialFS
	}
	// a history works on a sample of the universe, so that keys are revisited
	idx := r.Perm(len(ks))
	n := 10 + r.Intn(8)
	if n > len(idx) {
		n = len(idx)
	}
	for _, i := range idx[:n] {
		keys = append(keys, EncKey(ks[i]))
	}
	// the colon family is always there
	for _, k := range []string{"conn/10.0.0.1:443", "conn/10.0.0.1:8080", "conn/10.0.0.1", "a:b", "a:b:c"} {
		keys = append(keys, EncKey(k))
	}
	if backend == "f" && r.Intn(2) == 0 {
		keys = append(keys, EncKey(pick(r, KeysUnclean)))
	}
	for _, p := range ps {
		if backend == "f" && p == ".." {
			continue // resolves to the directory above the database: the file tree refuses the query
		}
		if p == "-" {
			prefixes = append(prefixes, "-")
		} else {
			prefixes = append(prefixes, EncKey(p))
		}
	}
	return keys, prefixes, "special"
}

// Keys returns the key universe of a backend.
func Keys(backend string) []string {
	if backend == "f" {
		return KeysFS
	}
	return KeysAny
}

var (
	// strings that mean something to some layer (JSON quoting, escapes, literals, multi-byte runes) among plain ones
	strPool = []string{"abc", "abd", "xyz", "ab", "", "c", "abcabc", `a"b`, `b\c`, "né", "null", "{x}", "true"}
	// integers of every magnitude class the accessors treat alike or differently (int32 edge, beyond float32, 2^40)
	intPool = []int64{-3, 0, 5, 7, 100, 2, 2147483647, -2147483649, 16777217, 1099511627776}
	// … and where an int64 stops being a float64 (the serialised form of a record is a JSON number: gjson parses it
	// as float64 first): clusters of neighbours around ±2^53, 2^54 (spacing 4: ties up and down), 2^62, the ends of the
	// int64 range and the float64 values next to them (2^63-1024 is the largest float64 below 2^63; 2^63-512 the tie)
	intPoolBig = []int64{
		1<<53 - 1, 1 << 53, 1<<53 + 1, 1<<53 + 2, 1<<53 + 3,
		-(1<<53 - 1), -(1 << 53), -(1<<53 + 1), -(1<<53 + 3),
		1<<54 + 2, 1<<54 + 4, 1<<54 + 6,
		1<<62 - 1, 1 << 62, 1<<62 + 1, 4611686018427904000, 4611686018427904001,
		math.MaxInt64, math.MaxInt64 - 1, math.MaxInt64 - 511, math.MaxInt64 - 512, math.MaxInt64 - 1023, math.MaxInt64 - 1024,
		math.MinInt64, math.MinInt64 + 1, math.MinInt64 + 1024, math.MinInt64 + 1025,
	}
	milliPool = []string{"0", "1500", "-2500", "2000", "7000", "5000", "1"}
	// float64 FIELDS of large magnitude (thousandths tokens). A float64 is serialised as the shortest decimal that
	// reads back as the same float64 (2^62 is written 4611686018427388000), so the serialised record holds another
	// integer literal than the value; that only shows under an integer operator on a float field (outside "Req.
	// Type"), but the model does not compute shortest decimals: field values are float64 values whose shortest
	// decimal IS their value (checked at start-up: textExact) — around 2^53, 2^54, 2^55, and the multiples of
	// 1 024 000 / 2 048 000 next to 2^62 and ±2^63.
	milliPoolBigField = textExact(bigMilli(
		"9007199254740991", "9007199254740992", "9007199254740994", "9007199254740996", "-9007199254740992", "-9007199254740994",
		"18014398509481984", "18014398509481988", "36028797018963976",
		"4611686018427904000", "4611686018428928000", "9223372036853760000", "9223372036855808000", "-9223372036853760000", "-9223372036855808000"))
	// float OPERANDS: the field values, the powers of two themselves, and decimals that are no float64 (2^53+1, the
	// neighbours and ties of the field values, 2^63-1): what a user may write; newFloatCondition rounds them
	milliPoolBigOperand = append(append([]string{}, milliPoolBigField...), bigMilli(
		"9007199254740993", "9007199254740995", "-9007199254740993", "18014398509481986", "18014398509481990",
		"4611686018427387904", "4611686018427387905", "4611686018427388416", "4611686018427388417",
		"4611686018427904001", "4611686018427904512", "4611686018427904513", "4611686018427905024", "9223372036853760001", "9223372036853759488",
		"9223372036854775807", "9223372036854775808", "-9223372036854775808", "-9223372036854775809", "18446744073709551616")...)
	listPool = []string{"a[]", "a[x]", "a[x,y]", "a[abc,xyz,q]"}
)

func bigMilli(ints ...string) []string {
	out := make([]string, len(ints))
	for i, s := range ints {
		n, ok := new(big.Int).SetString(s, 10)
		if !ok {
			panic("bigMilli: " + s)
		}
		out[i] = n.Mul(n, big.NewInt(1000)).String()
	}
	return out
}

// GenInt draws an int64 with uniform magnitude class: small / int32 / 2^40 values, or (one in three) a value
// around ±2^53, 2^54, 2^62 or at the ends of the int64 range.
func GenInt(r *rand.Rand) int64 {
	if r.Intn(3) == 0 {
		return pick(r, intPoolBig)
	}
	return pick(r, intPool)
}

// TextExact reports whether the float64 nearest to m/1000 is m/1000 itself AND encoding/json writes it with exactly
// these digits (strconv's shortest round-trip decimal).
func TextExact(m *big.Int) bool {
	f := MilliFloat(m)
	if FloatMilli(f).Cmp(m) != 0 {
		return false
	}
	t, ok := DecimalMilli(milliJSON(m))
	return ok && t.Cmp(m) == 0
}

func textExact(toks []string) []string {
	var out []string
	for _, t := range toks {
		m, _ := MilliTok(t)
		if !TextExact(m) {
			panic("dbx: float field value " + t + " is not written by encoding/json with its own digits")
		}
		out = append(out, t)
	}
	return out
}

// GenMilli draws a float token (thousandths) with uniform magnitude class; operand = a query operand (any decimal)
// rather than a field value (a float64 whose serialised text is its value).
func GenMilli(r *rand.Rand, operand bool) string {
	if r.Intn(3) == 0 {
		if operand {
			return pick(r, milliPoolBigOperand)
		}
		return pick(r, milliPoolBigField)
	}
	return pick(r, milliPool)
}

// GenFields makes a payload token. Typed records carry the full schema; JSON wrappers may lack fields or
// hold a value of another type.
func GenFields(r *rand.Rand, form string, marker string) string {
	s := pick(r, strPool)
	if marker != "" {
		s = marker
	}
	fs := []string{
		"S=s:" + s,
		fmt.Sprintf("I=i:%d", GenInt(r)),
		"F=f:" + GenMilli(r, false),
		fmt.Sprintf("B=b:%d", r.Intn(2)),
		fmt.Sprintf("N=o{X=i:%d}", pick(r, []int64{0, 7, 9, 9, 1<<53 + 1})),
		"L=" + pick(r, listPool),
	}
	if form == "T" {
		return strings.Join(fs, ";")
	}
	if form == "R" {
		if marker != "" {
			return "raw" + marker
		}
		return pick(r, []string{"-", "rawbytes", "x", "{notjson"})
	}
	// JSON wrapper
	switch r.Intn(10) {
	case 0: // wrong-typed values
		alt := []string{"I=s:abc", "S=i:5", "F=i:2", "I=f:1500", "B=s:true", "N=s:flat", "L=s:x",
			"F=i:9007199254740993", "I=f:9223372036855808000000", "F=i:-9223372036854775808", "I=f:-9223372036855808000000", "I=f:4611686018427904000000", "F=i:9223372036854775807"}
		k := r.Intn(len(alt))
		for i, f := range fs {
			if f[0] == alt[k][0] && (marker == "" || f[0] != 'S') {
				fs[i] = alt[k]
			}
		}
	case 1: // missing fields
		var keep []string
		for i, f := range fs {
			if (i == 0 && marker != "") || r.Intn(2) == 0 {
				keep = append(keep, f)
			}
		}
		fs = keep
		if len(fs) == 0 {
			return "-"
		}
	case 2:
		if marker == "" {
			return "-"
		}
	}
	r.Shuffle(len(fs), func(i, j int) { fs[i], fs[j] = fs[j], fs[i] })
	return strings.Join(fs, ";")
}

// GenMeta makes a metadata token: mostly fresh, sometimes with absolute expiry in the past / future,
// relative expiry, or a deletion timestamp.
func GenMeta(r *rand.Rand, flags bool) string { return GenMetaX(r, flags, false, false) }

// GenMetaX: noRel suppresses relative expiry (Deleted < 0), noExp every expiry.
func GenMetaX(r *rand.Rand, flags, noRel, noExp bool) string { return GenMetaY(r, flags, noRel, noExp, false) }

// GenMetaY: noPast additionally suppresses absolute expiries in the past.
func GenMetaY(r *rand.Rand, flags, noRel, noExp, noPast bool) string {
	c, m, e, d := "0", "0", "0", "0"
	switch r.Intn(12) {
	case 0:
		c, m = "5", "7"
	case 1:
		c, m = "@-5000", "@-5000"
	}
	switch r.Intn(14) {
	case 0:
		e = "5"
	case 1:
		e = "@-5000"
	case 2, 3:
		e = "@+3600"
	case 4:
		e = "@+86400"
	}
	switch r.Intn(16) {
	case 0:
		d = "5"
	case 1:
		d = "@-5000"
	case 2:
		d = "@+3600"
	case 3:
		d = "-3600"
	case 4:
		d = "-100"
	}
	if (noRel || noExp) && d[0] == '-' {
		d = "0"
	}
	if noExp || (noPast && (e == "5" || e == "@-5000")) {
		e = "0"
	}
	s, j := "0", "0"
	if flags {
		switch r.Intn(4) {
		case 1:
			s = "1"
		case 2:
			j = "1"
		case 3:
			s, j = "1", "1"
		}
	}
	return fmt.Sprintf("%s,%s,%s,%s,%s,%s", c, m, e, d, s, j)
}

// GenForm picks how the record is held.
func GenForm(r *rand.Rand) string {
	switch n := r.Intn(10); {
	case n < 5:
		return "T"
	case n < 9:
		return "J"
	}
	return "R"
}

// CondClass says which accessor-dependent class a generated leaf belongs to (counted in evidence).
type CondStats struct {
	WellTyped, IllTyped, SubLevel, Absent, Err int
}

// GenLeaf makes one `Where`.
func GenLeaf(r *rand.Rand, st *CondStats) string {
	switch r.Intn(22) {
	case 0, 1, 2:
		st.WellTyped++
		return fmt.Sprintf("[I:%s:%d]", pick(r, []string{"eq", "gt", "ge", "lt", "le"}), GenInt(r))
	case 3, 4:
		st.WellTyped++
		return fmt.Sprintf("[F:%s:%s]", pick(r, []string{"feq", "fgt", "fge", "flt", "fle"}), GenMilli(r, true))
	case 5, 6, 7:
		st.WellTyped++
		return fmt.Sprintf("[S:%s:%s]", pick(r, []string{"sa", "co", "sw", "ew"}), pick(r, []string{"abc", "ab", "c", "b", "xyz", "", "bc", `a"b`, "né", "null", `\\`}))
	case 8:
		st.WellTyped++
		return fmt.Sprintf("[S:in:%s]", pick(r, []string{"abc;xyz", "ab", "abd;q;abc", "zz;yy"}))
	case 9:
		st.WellTyped++
		return fmt.Sprintf("[S:re:%d%d%s]", r.Intn(2), r.Intn(2), pick(r, []string{"abc", "ab", "c", "b", "x.z"}))
	case 10:
		st.WellTyped++
		return fmt.Sprintf("[B:is:%d]", r.Intn(2))
	case 11:
		st.WellTyped++
		return fmt.Sprintf("[%s:ex:]", pick(r, []string{"S", "I", "F", "B", "N", "L"}))
	case 12:
		st.Absent++
		return pick(r, []string{"[Q:ex:]", "[Q:eq:5]", "[Q:sa:abc]", "[q.r.s:ex:]", "[S.x:ex:]"})
	case 13, 14: // sub-level, length and index selectors (README: "supported by all feeders")
		st.SubLevel++
		return pick(r, []string{"[N.X:eq:7]", "[N.X:ge:7]", "[L.#:eq:2]", "[L.#:gt:0]", "[L.0:sa:x]", "[L.1:sa:y]", "[N.X:ex:]", "[L.0:ex:]", "[L.5:ex:]", "[N.Y:ex:]", "[L.#:feq:2000]",
			"[N.X:eq:9007199254740993]", "[N.X:gt:9007199254740992]"})
	case 15, 16: // operator type differs from the field type
		st.IllTyped++
		return pick(r, []string{"[F:eq:1]", "[F:gt:0]", "[I:feq:5000]", "[I:fgt:2500]", "[S:eq:5]", "[I:sa:5]", "[B:eq:1]", "[S:is:1]", "[N:sa:x]", "[L:sa:x]", "[F:lt:2]", "[I:fle:7000]",
			// numeric coercions at the magnitudes where int64 and float64 part ways
			"[I:feq:9007199254740992000]", "[I:fgt:9007199254740992000]", "[I:fle:9223372036854775807000]", "[I:flt:4611686018427387905000]",
			"[F:eq:9007199254740993]", "[F:ge:9007199254740992]", "[F:gt:9223372036854775806]", "[F:eq:-9223372036854775808]", "[F:lt:0]", "[F:eq:4611686018427904000]", "[F:le:9223372036853760000]"})
	case 17:
		st.Err++
		return fmt.Sprintf("E%d", r.Intn(5))
	}
	st.WellTyped++
	return fmt.Sprintf("[I:%s:%d]", pick(r, []string{"eq", "ge", "le"}), GenInt(r))
}

// GenCond makes a condition tree token (`-` = no where clause).
func GenCond(r *rand.Rand, depth int, st *CondStats) string {
	if depth == 0 {
		if r.Intn(4) == 0 {
			return "-"
		}
		depth = 1 + r.Intn(3)
	}
	if depth == 1 {
		return GenLeaf(r, st)
	}
	switch r.Intn(8) {
	case 0:
		return "!" + GenCond(r, depth-1, st)
	case 1, 2, 3:
		n := r.Intn(4)
		var l []string
		for i := 0; i < n; i++ {
			l = append(l, GenCond(r, depth-1, st))
		}
		return "&(" + strings.Join(l, ",") + ")"
	case 4, 5:
		n := r.Intn(4)
		var l []string
		for i := 0; i < n; i++ {
			l = append(l, GenCond(r, depth-1, st))
		}
		return "|(" + strings.Join(l, ",") + ")"
	}
	return GenLeaf(r, st)
}
