package dbx

import (
	"fmt"
	"math/rand"
	"strings"
)

// Generators shared by hx-c02 and hx-c03. Every random choice comes from the *rand.Rand handed in.

// KeysFS is prefix-free at path-segment boundaries (no key is both a file and a directory).
var KeysFS = []string{"a/x", "a/xy", "a/y", "ab/x", "ab/c/d", "abc", "b", "c/d/e", "c/d/f", "x.y/z-1"}

// KeysAny additionally has keys that are path prefixes of other keys.
var KeysAny = append(append([]string{}, KeysFS...), "a", "ab", "a/x/y", "c/d", "c")

// Prefixes are query key prefixes: empty, inside a segment, at a separator, a full key, nothing stored below.
var Prefixes = []string{"-", "-", "a", "a/", "a/x", "ab", "ab/", "ab/c", "abc", "b", "c/", "c/d", "c/d/", "zz", "zz/q", "a/xz", "x.y/"}

func pick[T any](r *rand.Rand, l []T) T { return l[r.Intn(len(l))] }

// The "special" key universe: keys are opaque strings for the database, but not for every layer below and
// above it — `:` separates database name and key (record.ParseKey), `/` and dot segments mean something to the
// file tree, `%`, `#`, `?`, `*`, `\`, space, `~`, `^` to URLs, globs, escapes and this harness's own line protocol;
// multi-byte runes and long names to anything that counts bytes. Keys that differ only behind a colon, by a
// doubled / leading / trailing colon, by case of an escape or by one byte at the end of a long name must stay
// different records.
var (
	longSeg = strings.Repeat("L", 200)
	// KeysSpecialFS: prefix-free at path-segment boundaries and clean relative paths.
	KeysSpecialFS = []string{
		"conn/10.0.0.1:443", "conn/10.0.0.1:8080", "conn/10.0.0.1", "conn/10.0.0.2:443", "conn/[::1]:53",
		"a:b", "a:b:c", "a::b", ":a", "a:", ":", "::", "a:c/c:d",
		"a b", "a%20b", "a%3Ab", "q#1", "q?x=1&y=2", "s*", "s*r", `w\x`, `w\\x`, "n\u00e9/\u00fc", "\u65e5\u672c/\u30ad\u30fc", "~t", "^u", "a^20b", "...", "..a", "a..", ".h/.k",
		longSeg, longSeg + "x", "long/" + longSeg[:180] + "/" + longSeg[:190] + ":1", "long/" + longSeg[:180] + "/" + longSeg[:190] + ":2",
	}
	// KeysSpecialAny additionally has names that are not clean relative paths (the file tree refuses them, every
	// other backend takes them as they are) and keys that are path prefixes of other keys.
	KeysSpecialAny = append(append([]string{}, KeysSpecialFS...),
		"a//b", "a/./b", "a/b", "a/b/", "/a", "./a", "a/../b", "b", "a/..", "conn", "conn/", "a", "long")
	// KeysUnclean are offered to the file tree now and then: it has to refuse them.
	KeysUnclean = []string{"a//b", "a/./b", "a/b/", "/a", "./a", "a/../b", "a/..", "conn/", "../x", ".", "..", "x/../../y"}
	// PrefixesSpecial: query prefixes with the same characters — ending inside a segment, at a colon, after it.
	PrefixesSpecial = []string{"-", "-", "conn/", "conn/10.0.0.1", "conn/10.0.0.1:", "conn/10.0.0.1:4", "conn/10.0.0.1:8080", "conn/10.0.0.1:80800", "conn/[", "conn/[:",
		"a:", "a:b", "a:b:", "a::", ":", "::", ":::", "a ", "a%", "a%2", "q", "q?", "q#", "s*", `w\`, `w\\`, "n\u00e9", "n\u00e9/", "\u65e5", "~", "^", "a^", ".", "..", "a.", "a/", "a//", "a/.", "a/./", "./",
		"long/", longSeg[:199], longSeg, "long/" + longSeg[:180] + "/" + longSeg[:190] + ":"}
)

// Universe picks the key space of a history: mostly the plain one, sometimes the special one. Keys and
// prefixes are returned as protocol tokens (EncKey).
func Universe(r *rand.Rand, backend string) (keys, prefixes []string, name string) {
	if r.Intn(4) != 0 {
		return Keys(backend), Prefixes, "plain"
	}
	ks, ps := KeysSpecialAny, PrefixesSpecial
	if backend == "f" {
		ks = KeysSpecialFS
	}
	// a history works on a sample of the universe, so that keys are revisited
	idx := r.Perm(len(ks))
	n := 10 + r.Intn(8)
	if n > len(idx) {
		n = len(idx)
	}
	for _, i := range idx[:n] {
		keys = append(keys, EncKey(ks[i]))
	}
	// the colon family is always there
	for _, k := range []string{"conn/10.0.0.1:443", "conn/10.0.0.1:8080", "conn/10.0.0.1", "a:b", "a:b:c"} {
		keys = append(keys, EncKey(k))
	}
	if backend == "f" && r.Intn(2) == 0 {
		keys = append(keys, EncKey(pick(r, KeysUnclean)))
	}
	for _, p := range ps {
		if backend == "f" && p == ".." {
			continue // resolves to the directory above the database: the file tree refuses the query
		}
		if p == "-" {
			prefixes = append(prefixes, "-")
		} else {
			prefixes = append(prefixes, EncKey(p))
		}
	}
	return keys, prefixes, "special"
}

// Keys returns the key universe of a backend.
func Keys(backend string) []string {
	if backend == "f" {
		return KeysFS
	}
	return KeysAny
}

var (
	// strings that mean something to some layer (JSON quoting, escapes, literals, multi-byte runes) among plain ones
	strPool = []string{"abc", "abd", "xyz", "ab", "", "c", "abcabc", `a"b`, `b\c`, "né", "null", "{x}", "true"}
	// integers of every magnitude class the accessors treat alike or differently (int32 edge, beyond float32, 2^40)
	intPool = []int64{-3, 0, 5, 7, 100, 2, 2147483647, -2147483649, 16777217, 1099511627776}
	milliPool = []int64{0, 1500, -2500, 2000, 7000, 5000, 1}
	listPool  = []string{"a[]", "a[x]", "a[x,y]", "a[abc,xyz,q]"}
)

// GenFields makes a payload token. Typed records carry the full schema; JSON wrappers may lack fields or
// hold a value of another type.
func GenFields(r *rand.Rand, form string, marker string) string {
	s := pick(r, strPool)
	if marker != "" {
		s = marker
	}
	fs := []string{
		"S=s:" + s,
		fmt.Sprintf("I=i:%d", pick(r, intPool)),
		fmt.Sprintf("F=f:%d", pick(r, milliPool)),
		fmt.Sprintf("B=b:%d", r.Intn(2)),
		fmt.Sprintf("N=o{X=i:%d}", pick(r, []int64{0, 7, 9})),
		"L=" + pick(r, listPool),
	}
	if form == "T" {
		return strings.Join(fs, ";")
	}
	if form == "R" {
		if marker != "" {
			return "raw" + marker
		}
		return pick(r, []string{"-", "rawbytes", "x", "{notjson"})
	}
	// JSON wrapper
	switch r.Intn(10) {
	case 0: // wrong-typed values
		alt := []string{"I=s:abc", "S=i:5", "F=i:2", "I=f:1500", "B=s:true", "N=s:flat", "L=s:x"}
		k := r.Intn(len(alt))
		for i, f := range fs {
			if f[0] == alt[k][0] && (marker == "" || f[0] != 'S') {
				fs[i] = alt[k]
			}
		}
	case 1: // missing fields
		var keep []string
		for i, f := range fs {
			if (i == 0 && marker != "") || r.Intn(2) == 0 {
				keep = append(keep, f)
			}
		}
		fs = keep
		if len(fs) == 0 {
			return "-"
		}
	case 2:
		if marker == "" {
			return "-"
		}
	}
	r.Shuffle(len(fs), func(i, j int) { fs[i], fs[j] = fs[j], fs[i] })
	return strings.Join(fs, ";")
}

// GenMeta makes a metadata token: mostly fresh, sometimes with absolute expiry in the past / future,
// relative expiry, or a deletion timestamp.
func GenMeta(r *rand.Rand, flags bool) string { return GenMetaX(r, flags, false, false) }

// GenMetaX: noRel suppresses relative expiry (Deleted < 0), noExp every expiry.
func GenMetaX(r *rand.Rand, flags, noRel, noExp bool) string { return GenMetaY(r, flags, noRel, noExp, false) }

// GenMetaY: noPast additionally suppresses absolute expiries in the past.
func GenMetaY(r *rand.Rand, flags, noRel, noExp, noPast bool) string {
	c, m, e, d := "0", "0", "0", "0"
	switch r.Intn(12) {
	case 0:
		c, m = "5", "7"
	case 1:
		c, m = "@-5000", "@-5000"
	}
	switch r.Intn(14) {
	case 0:
		e = "5"
	case 1:
		e = "@-5000"
	case 2, 3:
		e = "@+3600"
	case 4:
		e = "@+86400"
	}
	switch r.Intn(16) {
	case 0:
		d = "5"
	case 1:
		d = "@-5000"
	case 2:
		d = "@+3600"
	case 3:
		d = "-3600"
	case 4:
		d = "-100"
	}
	if (noRel || noExp) && d[0] == '-' {
		d = "0"
	}
	if noExp || (noPast && (e == "5" || e == "@-5000")) {
		e = "0"
	}
	s, j := "0", "0"
	if flags {
		switch r.Intn(4) {
		case 1:
			s = "1"
		case 2:
			j = "1"
		case 3:
			s, j = "1", "1"
		}
	}
	return fmt.Sprintf("%s,%s,%s,%s,%s,%s", c, m, e, d, s, j)
}

// GenForm picks how the record is held.
func GenForm(r *rand.Rand) string {
	switch n := r.Intn(10); {
	case n < 5:
		return "T"
	case n < 9:
		return "J"
	}
	return "R"
}

// CondClass says which accessor-dependent class a generated leaf belongs to (counted in evidence).
type CondStats struct {
	WellTyped, IllTyped, SubLevel, Absent, Err int
}

// GenLeaf makes one `Where`.
func GenLeaf(r *rand.Rand, st *CondStats) string {
	switch r.Intn(22) {
	case 0, 1, 2:
		st.WellTyped++
		return fmt.Sprintf("[I:%s:%d]", pick(r, []string{"eq", "gt", "ge", "lt", "le"}), pick(r, intPool))
	case 3, 4:
		st.WellTyped++
		return fmt.Sprintf("[F:%s:%d]", pick(r, []string{"feq", "fgt", "fge", "flt", "fle"}), pick(r, milliPool))
	case 5, 6, 7:
		st.WellTyped++
		return fmt.Sprintf("[S:%s:%s]", pick(r, []string{"sa", "co", "sw", "ew"}), pick(r, []string{"abc", "ab", "c", "b", "xyz", "", "bc", `a"b`, "né", "null", `\\`}))
	case 8:
		st.WellTyped++
		return fmt.Sprintf("[S:in:%s]", pick(r, []string{"abc;xyz", "ab", "abd;q;abc", "zz;yy"}))
	case 9:
		st.WellTyped++
		return fmt.Sprintf("[S:re:%d%d%s]", r.Intn(2), r.Intn(2), pick(r, []string{"abc", "ab", "c", "b", "x.z"}))
	case 10:
		st.WellTyped++
		return fmt.Sprintf("[B:is:%d]", r.Intn(2))
	case 11:
		st.WellTyped++
		return fmt.Sprintf("[%s:ex:]", pick(r, []string{"S", "I", "F", "B", "N", "L"}))
	case 12:
		st.Absent++
		return pick(r, []string{"[Q:ex:]", "[Q:eq:5]", "[Q:sa:abc]", "[q.r.s:ex:]", "[S.x:ex:]"})
	case 13, 14: // sub-level, length and index selectors (README: "supported by all feeders")
		st.SubLevel++
		return pick(r, []string{"[N.X:eq:7]", "[N.X:ge:7]", "[L.#:eq:2]", "[L.#:gt:0]", "[L.0:sa:x]", "[L.1:sa:y]", "[N.X:ex:]", "[L.0:ex:]", "[L.5:ex:]", "[N.Y:ex:]", "[L.#:feq:2000]"})
	case 15, 16: // operator type differs from the field type
		st.IllTyped++
		return pick(r, []string{"[F:eq:1]", "[F:gt:0]", "[I:feq:5000]", "[I:fgt:2500]", "[S:eq:5]", "[I:sa:5]", "[B:eq:1]", "[S:is:1]", "[N:sa:x]", "[L:sa:x]", "[F:lt:2]", "[I:fle:7000]"})
	case 17:
		st.Err++
		return fmt.Sprintf("E%d", r.Intn(5))
	}
	st.WellTyped++
	return fmt.Sprintf("[I:%s:%d]", pick(r, []string{"eq", "ge", "le"}), pick(r, intPool))
}

// GenCond makes a condition tree token (`-` = no where clause).
func GenCond(r *rand.Rand, depth int, st *CondStats) string {
	if depth == 0 {
		if r.Intn(4) == 0 {
			return "-"
		}
		depth = 1 + r.Intn(3)
	}
	if depth == 1 {
		return GenLeaf(r, st)
	}
	switch r.Intn(8) {
	case 0:
		return "!" + GenCond(r, depth-1, st)
	case 1, 2, 3:
		n := r.Intn(4)
		var l []string
		for i := 0; i < n; i++ {
			l = append(l, GenCond(r, depth-1, st))
		}
		return "&(" + strings.Join(l, ",") + ")"
	case 4, 5:
		n := r.Intn(4)
		var l []string
		for i := 0; i < n; i++ {
			l = append(l, GenCond(r, depth-1, st))
		}
		return "|(" + strings.Join(l, ",") + ")"
	}
	return GenLeaf(r, st)
}
