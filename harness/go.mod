module verifharness

go 1.21.1

require github.com/safing/portbase v0.0.0

replace github.com/safing/portbase => /repo
