module verifharness

go 1.21.1

require (
	github.com/fxamacker/cbor/v2 v2.5.0
	github.com/ghodss/yaml v1.0.0
	github.com/safing/portbase v0.0.0
	github.com/vmihailenco/msgpack/v5 v5.4.1
)

require (
	github.com/gofrs/uuid v4.4.0+incompatible // indirect
	github.com/tevino/abool v1.2.0 // indirect
	github.com/vmihailenco/tagparser/v2 v2.0.0 // indirect
	github.com/x448/float16 v0.8.4 // indirect
	gopkg.in/yaml.v2 v2.4.0 // indirect
)

replace github.com/safing/portbase => /repo
