module verifharness

go 1.21.1

require (
	github.com/fxamacker/cbor/v2 v2.5.0
	github.com/ghodss/yaml v1.0.0
	github.com/gorilla/websocket v1.5.1
	github.com/hashicorp/go-version v1.6.0
	github.com/safing/jess v0.3.3
	github.com/safing/portbase v0.18.6
	github.com/tidwall/gjson v1.17.0
	github.com/tidwall/sjson v1.2.5
	github.com/vmihailenco/msgpack/v5 v5.4.1
)

require (
	github.com/gofrs/uuid v4.4.0+incompatible // indirect
	github.com/tevino/abool v1.2.0 // indirect
	github.com/vmihailenco/tagparser/v2 v2.0.0 // indirect
	github.com/x448/float16 v0.8.4 // indirect
	gopkg.in/yaml.v2 v2.4.0 // indirect
)

require (
	github.com/AndreasBriese/bbloom v0.0.0-20190825152654-46b345b51c96 // indirect
	github.com/aead/ecdh v0.2.0 // indirect
	github.com/aead/serpent v0.0.0-20160714141033-fba169763ea6 // indirect
	github.com/armon/go-radix v1.0.0 // indirect
	github.com/bluele/gcache v0.0.2 // indirect
	github.com/cespare/xxhash/v2 v2.2.0 // indirect
	github.com/dgraph-io/badger v1.6.2 // indirect
	github.com/dgraph-io/ristretto v0.1.1 // indirect
	github.com/dustin/go-humanize v1.0.1 // indirect
	github.com/golang/glog v1.2.0 // indirect
	github.com/golang/protobuf v1.5.3 // indirect
	github.com/gorilla/mux v1.8.1 // indirect
	github.com/hashicorp/errwrap v1.1.0 // indirect
	github.com/hashicorp/go-multierror v1.1.1 // indirect
	github.com/klauspost/cpuid/v2 v2.2.6 // indirect
	github.com/mitchellh/copystructure v1.2.0 // indirect
	github.com/mitchellh/reflectwalk v1.0.2 // indirect
	github.com/mr-tron/base58 v1.2.0 // indirect
	github.com/pkg/errors v0.9.1 // indirect
	github.com/satori/go.uuid v1.2.0 // indirect
	github.com/seehuhn/fortuna v1.0.1 // indirect
	github.com/seehuhn/sha256d v1.0.0 // indirect
	github.com/shirou/gopsutil v3.21.11+incompatible // indirect
	github.com/tidwall/match v1.1.1 // indirect
	github.com/tidwall/pretty v1.2.1 // indirect
	github.com/zeebo/blake3 v0.2.3 // indirect
	go.etcd.io/bbolt v1.3.8 // indirect
	golang.org/x/crypto v0.17.0 // indirect
	golang.org/x/exp v0.0.0-20231219180239-dc181d75b848 // indirect
	golang.org/x/net v0.19.0 // indirect
	golang.org/x/sync v0.5.0 // indirect
	golang.org/x/sys v0.15.0 // indirect
	google.golang.org/protobuf v1.32.0 // indirect
)

replace github.com/safing/portbase => /repo
