// Package hxlib is the shared plumbing of the correspondence harness:
// seeded generation, in-process execution of the real code, streaming comparison with the
// compiled Lean model (pbdrv), property monitors, measured coverage, replay.
package hxlib

import (
	"bufio"
	"encoding/json"
	"flag"
	"fmt"
	"hash/fnv"
	"io"
	"math/rand"
	"os"
	"os/exec"
	"path/filepath"
	"sort"
	"strings"
	"sync"
	"time"
)

// Case is one generated case: a list of op lines executed in order on fresh state.
type Case struct {
	Lines      []string
	NonTrivial bool   // by the property's stated rule
	Kind       string // generator class, counted in the distribution
	NoModel    bool   // run on the implementation only (monitor / totality); not diffed with the model
}

// Exec executes op lines against the real code. One Exec per case (fresh state).
type Exec interface {
	Do(line string) string
}

// Violation is a failure of the property's own observable statement on the implementation.
type Violation struct {
	Sig    string   `json:"sig"`  // finding signature: call site + input class
	What   string   `json:"what"` // human readable
	Lines  []string `json:"lines"`
	Output []string `json:"output,omitempty"`
}

// Disagreement is a difference between implementation and model output on one op.
type Disagreement struct {
	Sig   string   `json:"sig"`
	Lines []string `json:"lines"` // the case up to and including the differing op
	Impl  string   `json:"impl"`
	Model string   `json:"model"`
}

// Harness is what a property provides.
type Harness struct {
	Prop     string
	Rule     string // how cases are generated and what makes one non-trivial / distinct
	Generate func(r *Run, emit func(Case))
	NewExec  func(r *Run) Exec
	// Monitor is the plain reading of the property on (lines, implementation outputs).
	Monitor func(c Case, outs []string) []Violation
	// DisSig maps a differing op line to a signature (default: "corr:" + first word).
	DisSig func(line, impl, model string) string
	// Extra lets a harness add measured keys to the result.
	Extra func(r *Run) map[string]any
}

type pending struct {
	c    *Case
	idx  int
	impl string
}

// Run is the state of one harness run.
type Run struct {
	H       *Harness
	Tier    string
	Seed    int64
	OutDir  string
	Pbdrv   string
	Rng     *rand.Rand
	Thorough bool
	CrashLog string // if set, every case is written here before it runs (slow; used to find the case that kills the process)

	mu            sync.Mutex
	Evaluations   int
	Ops           int
	distinct      map[uint64]struct{}
	Dist          map[string]int
	Samples       []any
	Violations    []Violation
	NViol         int
	Disagreements []Disagreement
	NDis          int
	ModelOps      int

	cmd   *exec.Cmd
	stdin *bufio.Writer
	inPipe io.WriteCloser
	pend  chan pending
	done  chan struct{}
	start time.Time
}

// Count adds to the measured input distribution.
func (r *Run) Count(key string) {
	r.mu.Lock()
	r.Dist[key]++
	r.mu.Unlock()
}

// Budget picks the quick or thorough budget.
func (r *Run) Budget(quick, thorough int) int {
	if r.Thorough {
		return thorough
	}
	return quick
}

func (r *Run) startModel() {
	r.cmd = exec.Command(r.Pbdrv, r.H.Prop)
	in, err := r.cmd.StdinPipe()
	if err != nil {
		fatal("model stdin: %v", err)
	}
	out, err := r.cmd.StdoutPipe()
	if err != nil {
		fatal("model stdout: %v", err)
	}
	r.cmd.Stderr = os.Stderr
	if err := r.cmd.Start(); err != nil {
		fatal("start %s: %v", r.Pbdrv, err)
	}
	r.stdin = bufio.NewWriterSize(in, 1<<16)
	r.inPipe = in
	r.pend = make(chan pending, 1<<14)
	r.done = make(chan struct{})
	go func() {
		defer close(r.done)
		rd := bufio.NewReaderSize(out, 1<<16)
		for p := range r.pend {
			line, err := rd.ReadString('\n')
			if err != nil && line == "" {
				line = "MODEL-EOF"
			}
			line = strings.TrimRight(line, "\r\n")
			r.ModelOps++
			if p.idx < 0 { // case separator
				continue
			}
			if line != p.impl {
				r.mu.Lock()
				r.NDis++
				if len(r.Disagreements) < 25 {
					l := p.c.Lines[p.idx]
					sig := "corr:" + firstWord(l)
					if r.H.DisSig != nil {
						sig = r.H.DisSig(l, p.impl, line)
					}
					r.Disagreements = append(r.Disagreements, Disagreement{
						Sig: sig, Lines: append([]string{}, p.c.Lines[:p.idx+1]...), Impl: p.impl, Model: line})
				}
				r.mu.Unlock()
			}
		}
		io.Copy(io.Discard, rd)
	}()
}

func firstWord(s string) string {
	if i := strings.IndexByte(s, ' '); i >= 0 {
		return s[:i]
	}
	return s
}

func (r *Run) toModel(c *Case, idx int, line, impl string) {
	r.stdin.WriteString(line)
	r.stdin.WriteByte('\n')
	if len(r.pend) > cap(r.pend)-2 {
		r.stdin.Flush()
	}
	select {
	case r.pend <- pending{c, idx, impl}:
	default:
		r.stdin.Flush()
		r.pend <- pending{c, idx, impl}
	}
}

// SafeDo runs one op under recover; a panic can never equal a model output.
func SafeDo(e Exec, line string) (out string) {
	defer func() {
		if x := recover(); x != nil {
			out = "PANIC " + strings.SplitN(fmt.Sprint(x), "\n", 2)[0]
		}
	}()
	return e.Do(line)
}

// RunCase executes one case on the implementation, streams it to the model, applies the monitor.
func (r *Run) RunCase(c Case) []string {
	cc := c
	if r.CrashLog != "" {
		b, _ := json.Marshal(map[string]any{"lines": cc.Lines, "kind": cc.Kind})
		_ = os.WriteFile(r.CrashLog, b, 0o644)
	}
	t0 := time.Now()
	e := r.H.NewExec(r)
	outs := make([]string, len(cc.Lines))
	if !cc.NoModel {
		r.toModel(&cc, -1, "#case", "")
	}
	for i, l := range cc.Lines {
		outs[i] = SafeDo(e, l)
		if strings.HasPrefix(outs[i], "PANIC") {
			r.Count("outcome:PANIC")
		}
		if !cc.NoModel {
			r.toModel(&cc, i, l, outs[i])
		}
	}
	if cl, ok := e.(io.Closer); ok {
		cl.Close()
	}
	r.mu.Lock()
	r.Evaluations++
	r.Ops += len(cc.Lines)
	if cc.Kind != "" {
		r.Dist["kind:"+cc.Kind]++
		// measured wall time per case kind (milliseconds, cases run one after the other): where the budget goes
		r.Dist["wall_ms:"+cc.Kind] += int(time.Since(t0).Milliseconds())
	}
	if cc.NonTrivial {
		h := fnv.New64a()
		for _, l := range cc.Lines {
			h.Write([]byte(l))
			h.Write([]byte{10})
		}
		r.distinct[h.Sum64()] = struct{}{}
	}
	if len(r.Samples) < 6 || (len(r.Samples) < 12 && cc.NonTrivial && r.Evaluations%97 == 0) {
		n := len(cc.Lines)
		if n > 12 {
			n = 12
		}
		r.Samples = append(r.Samples, map[string]any{"kind": cc.Kind, "ops": cc.Lines[:n], "impl": outs[:n], "ops_total": len(cc.Lines)})
	}
	r.mu.Unlock()
	if r.H.Monitor != nil {
		for _, v := range r.H.Monitor(cc, outs) {
			r.AddViolation(v)
		}
	}
	return outs
}

// AddViolation records a monitor violation (first 25 kept in full, all counted).
func (r *Run) AddViolation(v Violation) {
	r.mu.Lock()
	r.NViol++
	if len(r.Violations) < 25 {
		r.Violations = append(r.Violations, v)
	} else {
		// keep one per distinct signature
		seen := false
		for _, o := range r.Violations {
			if o.Sig == v.Sig {
				seen = true
				break
			}
		}
		if !seen {
			r.Violations = append(r.Violations, v)
		}
	}
	r.mu.Unlock()
}

func fatal(format string, a ...any) {
	fmt.Fprintf(os.Stderr, "hx: "+format+"\n", a...)
	os.Exit(3)
}

// Result is what the check script reads.
type Result struct {
	Prop               string         `json:"property_id"`
	Tier               string         `json:"tier"`
	Seed               int64          `json:"seed"`
	Evaluations        int            `json:"evaluations"`
	Ops                int            `json:"ops"`
	ModelOps           int            `json:"model_ops"`
	DistinctNontrivial int            `json:"distinct_nontrivial"`
	Rule               string         `json:"rule"`
	Samples            []any          `json:"samples"`
	Distribution       map[string]int `json:"distribution"`
	NViolations        int            `json:"n_monitor_violations"`
	Violations         []Violation    `json:"monitor_violations"`
	NDisagreements     int            `json:"n_disagreements"`
	Disagreements      []Disagreement `json:"disagreements"`
	Extra              map[string]any `json:"extra,omitempty"`
	WallS              float64        `json:"wall_s"`
}

// Main is the entry point of every hx-cXX command.
func Main(h *Harness) {
	tier := flag.String("tier", "quick", "quick|thorough")
	seed := flag.Int64("seed", 1, "PRNG seed")
	out := flag.String("out", "", "output directory (result.json)")
	pbdrv := flag.String("pbdrv", "", "path to the compiled Lean model driver")
 	crashlog := flag.String("crashlog", "", "write every case to this file before running it (to identify a case that kills the process)")
	replay := flag.String("replay", "", "replay file (JSON with a 'lines' array): run on implementation and model, print both")
	flag.Parse()
	r := &Run{H: h, Tier: *tier, Seed: *seed, OutDir: *out, Pbdrv: *pbdrv, Thorough: *tier == "thorough",
		Rng: rand.New(rand.NewSource(*seed)), distinct: map[uint64]struct{}{}, Dist: map[string]int{}, start: time.Now()}
	r.CrashLog = *crashlog
	if *replay != "" {
		os.Exit(r.replay(*replay))
	}
	if *out == "" || *pbdrv == "" {
		fatal("need -out and -pbdrv")
	}
	r.startModel()
	h.Generate(r, func(c Case) { r.RunCase(c) })
	r.stdin.Flush()
	r.inPipe.Close()
	close(r.pend) // closing stdin ends the driver
	<-r.done
	r.cmd.Wait()
	res := r.result()
	b, _ := json.MarshalIndent(res, "", " ")
	if err := os.WriteFile(filepath.Join(*out, "result.json"), b, 0o644); err != nil {
		fatal("%v", err)
	}
	fmt.Printf("hx %s: cases=%d ops=%d model_ops=%d distinct_nontrivial=%d disagreements=%d monitor_violations=%d wall=%.1fs\n",
		h.Prop, res.Evaluations, res.Ops, res.ModelOps, res.DistinctNontrivial, res.NDisagreements, res.NViolations, res.WallS)
}

func (r *Run) result() *Result {
	res := &Result{Prop: r.H.Prop, Tier: r.Tier, Seed: r.Seed, Evaluations: r.Evaluations, Ops: r.Ops, ModelOps: r.ModelOps,
		DistinctNontrivial: len(r.distinct), Rule: r.H.Rule, Samples: r.Samples, Distribution: r.Dist,
		NViolations: r.NViol, Violations: r.Violations, NDisagreements: r.NDis, Disagreements: r.Disagreements,
		WallS: time.Since(r.start).Seconds()}
	if r.H.Extra != nil {
		res.Extra = r.H.Extra(r)
	}
	if res.Violations == nil {
		res.Violations = []Violation{}
	}
	if res.Disagreements == nil {
		res.Disagreements = []Disagreement{}
	}
	if res.Samples == nil {
		res.Samples = []any{}
	}
	return res
}

// replay re-executes the recorded lines on implementation and model and prints both and the monitor verdict.
func (r *Run) replay(path string) int {
	b, err := os.ReadFile(path)
	if err != nil {
		fatal("%v", err)
	}
	var rp struct {
		Lines []string `json:"lines"`
	}
	if err := json.Unmarshal(b, &rp); err != nil {
		fatal("replay file: %v", err)
	}
	if len(rp.Lines) == 0 {
		fmt.Println("replay: no op lines recorded (proof-obligation or build failure; see the replay file's 'detail')")
		return 0
	}
	e := r.H.NewExec(r)
	outs := make([]string, len(rp.Lines))
	for i, l := range rp.Lines {
		outs[i] = SafeDo(e, l)
	}
	var model []string
	if r.Pbdrv != "" {
		cmd := exec.Command(r.Pbdrv, r.H.Prop)
		cmd.Stdin = strings.NewReader("#case\n" + strings.Join(rp.Lines, "\n") + "\n")
		ob, _ := cmd.Output()
		model = strings.Split(strings.TrimRight(string(ob), "\n"), "\n")
		if len(model) > 0 {
			model = model[1:]
		}
	}
	bad := 0
	for i, l := range rp.Lines {
		m := "-"
		if i < len(model) {
			m = model[i]
		}
		mark := " "
		if m != outs[i] {
			mark = "≠"
			bad++
		}
		fmt.Printf("%s op: %s\n    impl : %s\n    model: %s\n", mark, l, outs[i], m)
	}
	if r.H.Monitor != nil {
		vs := r.H.Monitor(Case{Lines: rp.Lines}, outs)
		for _, v := range vs {
			fmt.Printf("MONITOR: %s — %s\n", v.Sig, v.What)
			bad++
		}
		if len(vs) == 0 {
			fmt.Println("MONITOR: property statement holds on this case")
		}
	}
	if bad > 0 {
		return 1
	}
	return 0
}

// SortedKeys is a helper for deterministic iteration.
func SortedKeys(m map[string]int) []string {
	ks := make([]string, 0, len(m))
	for k := range m {
		ks = append(ks, k)
	}
	sort.Strings(ks)
	return ks
}

// Hex renders bytes as the line protocol does ("-" for empty).
func Hex(b []byte) string {
	if len(b) == 0 {
		return "-"
	}
	const d = "0123456789abcdef"
	o := make([]byte, 2*len(b))
	for i, x := range b {
		o[2*i] = d[x>>4]
		o[2*i+1] = d[x&15]
	}
	return string(o)
}

// UnHex parses the line protocol's hex.
func UnHex(s string) []byte {
	if s == "-" {
		return []byte{}
	}
	o := make([]byte, len(s)/2)
	for i := range o {
		o[i] = unhex1(s[2*i])<<4 | unhex1(s[2*i+1])
	}
	return o
}

func unhex1(c byte) byte {
	switch {
	case c >= '0' && c <= '9':
		return c - '0'
	case c >= 'a' && c <= 'f':
		return c - 'a' + 10
	case c >= 'A' && c <= 'F':
		return c - 'A' + 10
	}
	return 0
}
